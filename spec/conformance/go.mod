module conformance

go 1.23
