// Exhaustive evaluation of the float lemma used for metrics.hdatPercentiles (C18):
// for every n in 1..32768 (every possible length of the percentile buffer),
// 0 <= int(math.Floor(float64(n)*99.9/100.0)) < n. Prints cases=<count>; exits 1 on a counterexample.
package main

import (
	"fmt"
	"math"
	"os"
)

func main() {
	cases := 0
	for n := 1; n <= 32768; n++ {
		idx := int(math.Floor(float64(n) * 99.9 / 100.0))
		cases++
		if idx < 0 || idx >= n {
			fmt.Printf("counterexample n=%d idx=%d\n", n, idx)
			os.Exit(1)
		}
	}
	fmt.Printf("cases=%d\n", cases)
}
