// Bounded conformance check of the trusted, format-specific contract of fmt.Fprintf used by the text
// responder (C01, C08): for the format "VALUE %s %d %d\r\n" with a []byte, a uint32 and a non-negative
// int, the output is "VALUE ", the key bytes, a space, the decimal digits of the flags, a space, the
// decimal digits of the length, CR LF — and the returned count is its length. Keys are every byte
// value alone and in pairs around '%' plus fixed samples; numbers are boundary values.
// Prints cases=<count>; exits 1 on a counterexample.
package main

import (
	"bytes"
	"fmt"
	"os"
	"strconv"
)

func main() {
	var keys [][]byte
	keys = append(keys, []byte{}, []byte("k"), []byte("cpu%used"), []byte("%d%s%v%%"), []byte("a b"), bytes.Repeat([]byte("x"), 250))
	for b := 0; b < 256; b++ {
		keys = append(keys, []byte{byte(b)}, []byte{'%', byte(b)}, []byte{byte(b), '%'})
	}
	flags := []uint32{0, 1, 9, 10, 99, 100, 999, 1000, 65535, 65536, 1<<31 - 1, 1 << 31, 1<<32 - 1}
	lens := []int{0, 1, 9, 10, 99, 100, 999, 1000, 1 << 20, 1<<31 - 1, 1 << 40}
	cases := 0
	for _, k := range keys {
		for _, f := range flags {
			for _, n := range lens {
				var buf bytes.Buffer
				cnt, err := fmt.Fprintf(&buf, "VALUE %s %d %d\r\n", k, f, n)
				want := append([]byte("VALUE "), k...)
				want = append(want, ' ')
				want = strconv.AppendUint(want, uint64(f), 10)
				want = append(want, ' ')
				want = strconv.AppendInt(want, int64(n), 10)
				want = append(want, '\r', '\n')
				cases++
				if err != nil || cnt != len(want) || !bytes.Equal(buf.Bytes(), want) {
					fmt.Printf("counterexample key=%q flags=%d len=%d got=%q\n", k, f, n, buf.Bytes())
					os.Exit(1)
				}
			}
		}
	}
	fmt.Printf("cases=%d\n", cases)
}
