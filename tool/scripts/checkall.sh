#!/bin/bash
# runs every claimed check once on the current tree; prints one line per property
cd /verif
for p in $(python3 -c "import json;print(' '.join(c['property_id'] for c in json.load(open('MANIFEST.json'))['checks']))") "$@"; do
  out=$(./bin/rvc check $p 2>&1); rc=$?
  echo "$(echo "$out" | grep "^$p:" ) rc=$rc kf=$(echo "$out" | grep -c '^KNOWN-FINDING') viol=$(echo "$out" | grep -c '^VIOLATION')"
done
