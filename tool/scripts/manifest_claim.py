#!/usr/bin/env python3
# manifest_claim.py <id> <level text> <level note>  : add or update a proof-level check in MANIFEST.json
import json,sys,subprocess
pid,text,note=sys.argv[1:4]
p='/verif/MANIFEST.json'
m=json.load(open(p))
m['hooks']['source_commits']=subprocess.check_output("cd /repo && git log --reverse --format=%h --grep='^verif:'",shell=True,text=True).split()
sp=m['engines'][0]['serves_properties']
if pid not in sp: sp.append(pid); sp.sort()
m['not_applicable']=[x for x in m.get('not_applicable',[]) if x['property_id']!=pid]
cs=[c for c in m['checks'] if c['property_id']==pid]
if cs: c=cs[0]
else:
    c={'property_id':pid,'quick_cmd':'./bin/rvc check %s --tier quick'%pid,'thorough_cmd':'./bin/rvc check %s --tier thorough'%pid,
       'evidence_file':'evidence/%s.json'%pid,'replay_cmd_template':'./bin/rvc replay {path}','engine':'rvc',
       'technique':'contract-based deductive verification (VCs from go/ssa, discharged by SMT)'}
    m['checks'].append(c); m['checks'].sort(key=lambda c:c['property_id'])
if text: c['level_claimed']={'category':'proof','text':text,'design_ref':'DESIGN.md section 4 '+pid}
if note: c['level_note']=note
json.dump(m,open(p,'w'),indent=1)
