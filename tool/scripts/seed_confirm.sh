#!/bin/bash
# seed_confirm.sh <out-dir e.g. /tmp/out-C12/m1> <seed-id e.g. C12-m1>
# Confirms a seeded change in a scratch worktree: demo passes on the unchanged tree, the changed tree
# builds, passes the existing suite, and fails the demo. Stores the result under /verif/seeded/<id>/.
set -u
export GOFLAGS=-mod=mod GOPROXY=off GOSUMDB=off GOTOOLCHAIN=local
src=$1; id=$2
dst=/verif/seeded/$id
mkdir -p $dst
wt=/var/tmp/seedwt-$id
git -C /repo worktree remove --force $wt >/dev/null 2>&1
git -C /repo worktree add -q --detach $wt HEAD || exit 2
cp $src/patch.diff $dst/patch.diff
for f in $src/*_test.go $src/*.go; do [ -f "$f" ] && cp $f $dst/; done
cp $src/demo.txt $dst/ 2>/dev/null
democmd=$(python3 -c "import json;print(json.load(open('$src/meta.json')).get('demo_cmd',''))")
# where do demo files go? take the package dir from the demo command (./pkg/...) 
pkgdir=$(echo "$democmd" | grep -o '\./[A-Za-z0-9_/]*' | head -1)
[ -z "$pkgdir" ] && pkgdir=$(python3 -c "import json,os;print('./'+os.path.dirname(json.load(open('$src/meta.json'))['files_changed'][0]))")
runpat=$(echo "$democmd" | grep -o "\-run [^ ]*" | head -1 | sed "s/-run //; s/'//g")
for f in $src/*_test.go; do cp $f $wt/$pkgdir/; done
cd $wt
base_demo=$(go test -vet=off -count=1 -timeout 120s $pkgdir -run "$runpat" 2>&1 | tail -3)
echo "$base_demo" | grep -q "^ok" && r_base=pass || r_base=FAIL
git apply $src/patch.diff || { echo "$id: patch does not apply"; echo '{"error":"patch does not apply to current HEAD"}' > $dst/confirm.json; git -C /repo worktree remove --force $wt; exit 3; }
go build ./... 2>&1 | grep -v "^#\|app\b" | head -3
mut_demo=$(go test -vet=off -count=1 -timeout 120s $pkgdir -run "$runpat" 2>&1 | tail -15)
echo "$mut_demo" | grep -q "^ok" && r_mut=pass || r_mut=FAIL
rm -f $wt/$pkgdir/*demo_test.go
for f in $src/*_test.go; do rm -f $wt/$pkgdir/$(basename $f); done
suite=$(go test -vet=off -count=1 -timeout 600s ./... 2>&1 | grep -v "no test files" | grep -v "^#" | grep -v "app\b\|redeclared\|other declaration" )
nfail=$(echo "$suite" | grep -c "^--- FAIL\|^FAIL[[:space:]]*github")
python3 - "$src/meta.json" "$dst/meta.json" "$r_base" "$r_mut" "$nfail" "$democmd" <<'PY'
import json,sys
m=json.load(open(sys.argv[1]))
m['confirmed']={'demo_on_unchanged_tree':sys.argv[3],'demo_on_changed_tree':sys.argv[4],'existing_suite_failures_with_change':int(sys.argv[5]),
  'what_was_run':'scratch worktree of /repo HEAD: go test -run <demo> before and after git apply patch.diff; then go test -vet=off -count=1 ./... with the change'}
json.dump(m,open(sys.argv[2],'w'),indent=1)
PY
echo "$id: demo unchanged=$r_base changed=$r_mut suite_failures=$nfail"
cd /; git -C /repo worktree remove --force $wt
