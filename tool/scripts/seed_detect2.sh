#!/bin/bash
# seed_detect2.sh <seed-id> <property...> : apply /verif/seeded/<id>/patch.diff to a scratch worktree of /repo
# (outside /repo and /verif), run the checks against it with a scratch evidence directory, remove the worktree.
id=$1; shift
wt=/var/tmp/det-$id; vd=/var/tmp/detv-$id
git -C /repo worktree remove --force $wt >/dev/null 2>&1; rm -rf $vd
git -C /repo worktree add -q --detach $wt HEAD || exit 2
mkdir -p $vd; ln -s /verif/spec $vd/spec; ln -s /verif/known_findings.json $vd/known_findings.json
git -C $wt apply /verif/seeded/$id/patch.diff || { echo "$id: patch does not apply"; git -C /repo worktree remove --force $wt; exit 2; }
for p in "$@"; do
  out=$(cd /verif && RVC_RACE_TIMEOUT=${RVC_RACE_TIMEOUT:-25} RVC_MAX_REPLAYS=${RVC_MAX_REPLAYS:-3} RVC_VERIF=$vd ./bin/rvc check $p --repo $wt 2>&1)
  n=$(echo "$out" | grep -c "^VIOLATION")
  first=$(echo "$out" | grep "^VIOLATION" | head -3 | sed 's/.*obligation=//' | tr '\n' ' ')
  rp=$(echo "$out" | grep "^VIOLATION" | grep -vc "no-failing-input-found")
  echo "$id $p violations=$n replayed=$rp $first"
  if [ -n "$KEEP_REPLAYS" ]; then mkdir -p /var/tmp/replays-$id; cp $vd/replays/* /var/tmp/replays-$id/ 2>/dev/null; fi
done
git -C /repo worktree remove --force $wt; rm -rf $vd
