#!/bin/bash
# checkpar.sh [-j N] [props...] : run claimed checks N at a time; full output in /var/tmp/chk/<id>.out; one summary line each
cd /verif
J=4
if [ "$1" = "-j" ]; then J=$2; shift 2; fi
props="$@"
[ -z "$props" ] && props=$(python3 -c "import json;print(' '.join(c['property_id'] for c in json.load(open('MANIFEST.json'))['checks']))")
mkdir -p /var/tmp/chk
run1() { p=$1; s=$(date +%s); ./bin/rvc check $p > /var/tmp/chk/$p.out 2>&1; rc=$?; e=$(date +%s)
  echo "$(grep "^$p:" /var/tmp/chk/$p.out) rc=$rc kf=$(grep -c '^KNOWN-FINDING' /var/tmp/chk/$p.out) viol=$(grep -c '^VIOLATION' /var/tmp/chk/$p.out) t=$((e-s))s"; }
export -f run1
echo $props | tr ' ' '\n' | xargs -P $J -I{} bash -c 'run1 {}'
