#!/bin/bash
# bounded_overlay.sh <repo-relative package dir> <test file under spec/conformance/overlay> <TestName>
# Runs a bounded check against the REAL code of the working tree ($RVC_REPO, default /repo): the test
# file is injected into the package with `go test -overlay` (nothing is written to the repository).
repo=${RVC_REPO:-/repo}
pkg=$1; src=/verif/spec/conformance/overlay/$2; name=$3
export GOFLAGS=-mod=mod GOPROXY=off GOSUMDB=off GOTOOLCHAIN=local
tmp=$(mktemp -d /var/tmp/rvc-bounded-XXXXXX)
trap 'rm -rf "$tmp"' EXIT
printf '{"Replace":{"%s/%s/zz_rvc_bounded_test.go":"%s"}}\n' "$repo" "$pkg" "$src" > $tmp/ov.json
cd $repo && go test -overlay $tmp/ov.json -vet=off -count=1 -timeout 120s -run "^$name\$" -v ./$pkg 2>&1 | tee $tmp/out | grep -E "^cases=|FAIL|panic|ok " | head -20
grep -q "^ok " $tmp/out
