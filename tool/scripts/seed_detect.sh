#!/bin/bash
# seed_detect.sh <seed-id> <property...> : apply /verif/seeded/<id>/patch.diff to /repo, run the checks, undo.
id=$1; shift
cd /verif
rm -rf /var/tmp/ev.bak && cp -r /verif/evidence /var/tmp/ev.bak
git -C /repo apply /verif/seeded/$id/patch.diff 2>/dev/null || git -C /repo apply /tmp/out-${id%-*}/${id#*-}/patch.diff || { echo "$id: patch does not apply"; exit 2; }
for p in "$@"; do
  out=$(./bin/rvc check $p 2>&1)
  n=$(echo "$out" | grep -c "^VIOLATION")
  first=$(echo "$out" | grep "^VIOLATION" | head -2 | sed 's/.*obligation=//' | tr '\n' ' ')
  echo "$id $p violations=$n $first"
done
git -C /repo checkout -- . 
rm -rf /verif/evidence && mv /var/tmp/ev.bak /verif/evidence
