#!/bin/bash
# seed_matrix.sh [-j N] [seed-id...] : run each seeded change against the check of the property it breaks
# (scratch worktree per seed, see seed_detect2.sh); one line per seed in /var/tmp/det/matrix.txt
J=3
if [ "$1" = "-j" ]; then J=$2; shift 2; fi
ids="$@"
[ -z "$ids" ] && ids=$(ls /verif/seeded)
mkdir -p /var/tmp/det
: > /var/tmp/det/matrix.txt
one() { id=$1; p=${id%%-*}; extra=$(python3 -c "import json;print(' '.join(json.load(open('/verif/seeded/$id/meta.json')).get('also_check',[])))" 2>/dev/null)
  /verif/tool/scripts/seed_detect2.sh $id $p $extra >> /var/tmp/det/matrix.txt 2>/var/tmp/det/$id.err; }
export -f one
echo $ids | tr ' ' '\n' | xargs -P $J -I{} bash -c 'one {}'
sort /var/tmp/det/matrix.txt
