package main

import (
	"encoding/json"
	"fmt"
	"os"
	"os/exec"
	"path/filepath"
	"regexp"
	"sort"
	"strconv"
	"strings"
	"sync"
)

// ---- must-fail corpus (DESIGN 2.8): the seeded changes under /verif/seeded ----
// `rvc selftest [property...]` applies every seeded change to a scratch worktree of /repo (outside
// /repo and /verif, removed afterwards) and runs the check of the property it breaks. A change listed
// as "detected" in seeded/expected.json must make that check report a violation; one listed as
// "missed" documents a known gap. Exit 1 if a change expected to be detected is not.

type seedExpect struct {
	Property string   `json:"property"`
	Check    []string `json:"check"`
	Expect   string   `json:"expect"`
	Why      string   `json:"why,omitempty"`
	Note     string   `json:"note,omitempty"`
}

type seedResult struct {
	Seed       string `json:"seed"`
	Property   string `json:"property"`
	Expected   string `json:"expected"`
	Violations int    `json:"violations"`
	First      string `json:"first_obligation,omitempty"`
	OK         bool   `json:"as_expected"`
}

var violRe = regexp.MustCompile(`violations=(\d+)`)

func runSeeds(props []string, par int) ([]seedResult, bool) {
	b, err := os.ReadFile(filepath.Join(verifDir, "seeded", "expected.json"))
	if err != nil {
		fmt.Fprintln(os.Stderr, "selftest:", err)
		return nil, false
	}
	exp := map[string]*seedExpect{}
	if err := json.Unmarshal(b, &exp); err != nil {
		fmt.Fprintln(os.Stderr, "selftest:", err)
		return nil, false
	}
	var ids []string
	for id, e := range exp {
		if len(props) == 0 || contains(props, e.Property) {
			ids = append(ids, id)
		}
	}
	sort.Strings(ids)
	res := make([]seedResult, len(ids))
	sem := make(chan struct{}, par)
	var wg sync.WaitGroup
	for i, id := range ids {
		wg.Add(1)
		go func(i int, id string) {
			defer wg.Done()
			sem <- struct{}{}
			defer func() { <-sem }()
			e := exp[id]
			args := append([]string{filepath.Join(verifDir, "tool", "scripts", "seed_detect2.sh"), id}, e.Check...)
			out, _ := exec.Command("bash", args...).CombinedOutput()
			n := 0
			first := ""
			for _, l := range strings.Split(string(out), "\n") {
				if m := violRe.FindStringSubmatch(l); m != nil {
					k, _ := strconv.Atoi(m[1])
					n += k
					if f := strings.Fields(l); len(f) > 4 && first == "" {
						first = f[4]
					}
				}
			}
			r := seedResult{Seed: id, Property: e.Property, Expected: e.Expect, Violations: n, First: first}
			r.OK = (e.Expect == "detected" && n > 0) || e.Expect == "missed" || e.Expect == "stale"
			res[i] = r
		}(i, id)
	}
	wg.Wait()
	ok := true
	for _, r := range res {
		if !r.OK {
			ok = false
		}
	}
	return res, ok
}

func cmdSelftest(a []string) int {
	if d := os.Getenv("RVC_VERIF"); d != "" {
		verifDir = d
	}
	res, ok := runSeeds(a, 3)
	for _, r := range res {
		status := "ok"
		if !r.OK {
			status = "NOT DETECTED"
		} else if r.Expected == "missed" && r.Violations == 0 {
			status = "known miss"
		}
		fmt.Printf("%-8s %-4s expected=%-8s violations=%-3d %-12s %s\n", r.Seed, r.Property, r.Expected, r.Violations, status, r.First)
	}
	if !ok {
		return 1
	}
	return 0
}
