package main

func cmdSelftest(a []string) int { return 0 }
