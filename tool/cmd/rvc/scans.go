package main

import (
	"fmt"
	"go/token"
	"strings"

	"golang.org/x/tools/go/ssa"
)

// Syntactic ownership scans: conditions on the shape of the code that stand for a frame / ownership
// clause the VC generator does not express (no interleaving of goroutines is modelled). Each scan
// yields obligations that are discharged or refuted by inspection of the SSA form; they are reported
// like any other obligation (kind "scan").

type ScanSpec struct {
	Name      string   `json:"name"`
	Functions []string `json:"functions"`
}

// scanGoCaptures: in the given function, every `go` statement that starts a closure hands that
// goroutine variables of its own: each captured variable (a heap cell bound into the closure) is
// (1) allocated inside every loop that contains the `go` statement — a fresh variable per iteration,
// never one cell shared by the goroutines of successive iterations — and (2) not stored to at any
// point the `go` statement does not dominate... i.e. every store to it happens before the spawn.
// This is the per-connection freshness clause of C14/C15: the handlers and the connection a serving
// goroutine closes are the ones created for it.
func scanGoCaptures(w *World, fn *ssa.Function) *VC {
	vc := newVC(w, fn, &FuncSpec{Key: qualName(fn), Loops: map[int]*LoopSpec{}})
	vc.name = qualName(fn) + " [scan: variables captured by goroutines]"
	add := func(ok bool, desc string, pos token.Pos) {
		ob := &Oblig{Fn: vc.name, Kind: "scan", Desc: desc, Goal: "true", Reach: "true"}
		if pos.IsValid() {
			p := w.Fset.Position(pos)
			ob.Pos = fmt.Sprintf("%s:%d", relRepo(p.Filename), p.Line)
		}
		ob.ID = fmt.Sprintf("%s#scan.%d", vc.name, vc.countKind("scan"))
		ob.Solver = "syntactic"
		if ok {
			ob.Status = "proved"
		} else {
			ob.Status = "refuted"
			ob.Output = "condition on the SSA form does not hold"
		}
		vc.obligs = append(vc.obligs, ob)
	}
	var visit func(f *ssa.Function)
	visit = func(f *ssa.Function) {
		for _, b := range f.Blocks {
			for _, ins := range b.Instrs {
				g, ok := ins.(*ssa.Go)
				if !ok {
					continue
				}
				mc, ok := g.Call.Value.(*ssa.MakeClosure)
				if !ok {
					continue
				}
				for i, bnd := range mc.Bindings {
					name := mc.Fn.(*ssa.Function).FreeVars[i].Name()
					al, isAlloc := bnd.(*ssa.Alloc)
					if !isAlloc {
						// a free variable of the enclosing function handed on, or a value: shared by
						// construction with the enclosing scope; accept only if never written
						fv, isFV := bnd.(*ssa.FreeVar)
						add(isFV && !freeVarWritten(fv), fmt.Sprintf("goroutine started at %s captures %s, a variable of an enclosing function that is never written", vc.posOf(g.Pos()), name), g.Pos())
						continue
					}
					fresh := true
					for _, h := range f.Blocks {
						if isLoopHead(h) && naturalLoop(h)[g.Block()] && !naturalLoop(h)[al.Block()] {
							// one cell for all iterations: fine only if no iteration writes it (a parameter
							// or a variable set once before the loop, shared read-only by the goroutines)
							if refs := al.Referrers(); refs != nil {
								for _, r := range *refs {
									if st, ok := r.(*ssa.Store); ok && st.Addr == al && naturalLoop(h)[st.Block()] {
										fresh = false
									}
								}
							}
						}
					}
					add(fresh, fmt.Sprintf("variable %s captured by the goroutine started at %s is allocated anew in every iteration of the loops around the go statement, or never assigned inside them", name, vc.posOf(g.Pos())), g.Pos())
					storesBefore := true
					if refs := al.Referrers(); refs != nil {
						for _, r := range *refs {
							if st, ok := r.(*ssa.Store); ok && st.Addr == al {
								if !(st.Block().Dominates(g.Block())) || (st.Block() == g.Block() && indexIn(st) > indexIn(g)) {
									storesBefore = false
								}
							}
						}
					}
					add(storesBefore, fmt.Sprintf("every assignment to %s in the spawning function happens before the goroutine started at %s is spawned", name, vc.posOf(g.Pos())), g.Pos())
				}
			}
		}
		for _, af := range f.AnonFuncs {
			visit(af)
		}
	}
	visit(fn)
	return vc
}

func indexIn(ins ssa.Instruction) int {
	for i, x := range ins.Block().Instrs {
		if x == ins {
			return i
		}
	}
	return -1
}

// scanCASRetry: the contracts treat "load; compare; CompareAndSwap" as one atomic read-modify-write of
// the cell. That is justified only for the retry idiom: when the swap fails (another goroutine moved
// the cell between the load and the swap) control must come back to the swap through a new load. The
// scan checks, for every sync/atomic CompareAndSwap call in the function, that its result decides a
// branch of its own block and that the failure branch leads back to the call (a retry loop). A single
// attempt that drops the update on failure — invisible to a call verified on its own — is refuted.
func scanCASRetry(w *World, fn *ssa.Function) *VC {
	vc := newVC(w, fn, &FuncSpec{Key: qualName(fn), Loops: map[int]*LoopSpec{}})
	vc.name = qualName(fn) + " [scan: compare-and-swap failures are retried]"
	add := func(ok bool, desc string, pos token.Pos) {
		ob := &Oblig{Fn: vc.name, Kind: "scan", Desc: desc, Goal: "true", Reach: "true"}
		if pos.IsValid() {
			p := w.Fset.Position(pos)
			ob.Pos = fmt.Sprintf("%s:%d", relRepo(p.Filename), p.Line)
		}
		ob.ID = fmt.Sprintf("%s#scan.%d", vc.name, vc.countKind("scan"))
		ob.Solver = "syntactic"
		if ok {
			ob.Status = "proved"
		} else {
			ob.Status = "refuted"
			ob.Output = "condition on the SSA form does not hold"
		}
		vc.obligs = append(vc.obligs, ob)
	}
	n := 0
	for _, b := range fn.Blocks {
		for _, ins := range b.Instrs {
			call, ok := ins.(*ssa.Call)
			if !ok {
				continue
			}
			f, ok := call.Call.Value.(*ssa.Function)
			if !ok || f.Pkg == nil || f.Pkg.Pkg.Path() != "sync/atomic" || !strings.HasPrefix(f.Name(), "CompareAndSwap") {
				continue
			}
			n++
			retried := false
			if iff, ok := b.Instrs[len(b.Instrs)-1].(*ssa.If); ok && iff.Cond == ssa.Value(call) && len(b.Succs) == 2 {
				fail := b.Succs[1]
				retried = fail == b || blockReaches(fail, b)
			}
			add(retried, fmt.Sprintf("the failure branch of the %s at %s leads back to it (retry loop)", f.Name(), vc.posOf(call.Pos())), call.Pos())
		}
	}
	add(n > 0, "the function performs at least one compare-and-swap (the scan is not vacuous)", fn.Pos())
	return vc
}

var scanFuncs = map[string]func(*World, *ssa.Function) *VC{
	"go-captures": scanGoCaptures,
	"cas-retry":   scanCASRetry,
}
