package main

import (
	"sync"
	"fmt"
	"go/constant"
	"go/token"
	"go/types"
	"math/big"
	"strings"

	"golang.org/x/tools/go/ssa"
)

// val returns the term of an SSA operand.
func (fr *Frame) val(v ssa.Value) Term {
	vc := fr.vc
	if t, ok := fr.vals[v]; ok && t.S != "" {
		return t
	}
	switch v := v.(type) {
	case *ssa.Const:
		return vc.constTerm(v)
	case *ssa.Function:
		return Term{vc.funcHandle(v), "Int", v.Type()}
	case *ssa.Builtin:
		return Term{"0", "Int", v.Type()}
	case *ssa.FreeVar:
		if t, ok := fr.freeV[v]; ok {
			return t
		}
		if _, ok := fr.freeL[v]; ok {
			// pointer-valued free variable used as a plain value
			vc.unsupportedf("free variable %s used as value", v.Name())
			return Term{"0", "Int", v.Type()}
		}
	case *ssa.Global:
		vc.unsupportedf("address of global %s used as value", v.Name())
		return Term{"0", "Int", v.Type()}
	}
	if _, ok := fr.lvals[v]; ok {
		vc.unsupportedf("interior pointer %s (%s) used as a value at %s", v.Name(), v.Type(), vc.posOf(v.Pos()))
		return Term{"0", "Int", v.Type()}
	}
	vc.unsupportedf("value %s (%T) has no term in %s", v.Name(), v, fr.fn.Name())
	return Term{"0", vc.sortOf(v.Type()), v.Type()}
}

func (vc *VC) posOf(p token.Pos) string {
	if !p.IsValid() || vc.w.Fset == nil {
		return "?"
	}
	q := vc.w.Fset.Position(p)
	return fmt.Sprintf("%s:%d", relRepo(q.Filename), q.Line)
}

func (vc *VC) funcHandle(f *ssa.Function) string {
	name := "fn_" + smtIdent(qualName(f))
	if !vc.declared[name] {
		vc.declared[name] = true
		vc.decls = append(vc.decls, fmt.Sprintf("(declare-const %s Int)", name), fmt.Sprintf("(assert (> %s 0))", name))
	}
	return name
}

func (vc *VC) constTerm(c *ssa.Const) Term {
	t := c.Type()
	if c.Value == nil {
		return vc.zero(t)
	}
	switch c.Value.Kind() {
	case constant.Bool:
		if constant.BoolVal(c.Value) {
			return Term{"true", "Bool", t}
		}
		return Term{"false", "Bool", t}
	case constant.Int:
		if isFloat(t) {
			return vc.floatConst(c.Value.ExactString(), t)
		}
		bi, _ := new(big.Int).SetString(c.Value.ExactString(), 10)
		return vc.intLit(bi, t)
	case constant.String:
		return Term{vc.strLit(constant.StringVal(c.Value)), "Str", t}
	case constant.Float:
		return vc.floatConst(c.Value.ExactString(), t)
	}
	vc.unsupportedf("constant %s", c)
	return vc.zero(t)
}

func (vc *VC) floatConst(s string, t types.Type) Term {
	name := "flt_" + smtIdent(s)
	if !vc.declared[name] {
		vc.declared[name] = true
		vc.decls = append(vc.decls, fmt.Sprintf("(declare-const %s F64)", name))
	}
	return Term{name, "F64", t}
}

func (vc *VC) strLit(s string) string {
	if s == "" {
		return "str_empty"
	}
	if n, ok := vc.strlits[s]; ok {
		return n
	}
	n := fmt.Sprintf("strlit_%d", len(vc.strlits))
	vc.strlits[s] = n
	vc.decls = append(vc.decls, fmt.Sprintf("(declare-const %s Str) ; %q", n, truncate(s, 40)))
	vc.decls = append(vc.decls, fmt.Sprintf("(assert (= (str_len %s) %d))", n, len(s)))
	for i := 0; i < len(s) && i < 64; i++ {
		vc.decls = append(vc.decls, fmt.Sprintf("(assert (= (str_at %s %s) %s))", n, vc.ilit(int64(i)), vc.byteLit(int64(s[i]))))
	}
	return n
}

func (vc *VC) byteLit(b int64) string {
	if vc.bv {
		return fmt.Sprintf("(_ bv%d 8)", b)
	}
	return fmt.Sprintf("%d", b)
}

func truncate(s string, n int) string {
	s = strings.ReplaceAll(s, "\n", "\\n")
	if len(s) > n {
		return s[:n] + "..."
	}
	return s
}

// bind names the result of a value-producing instruction.
func (fr *Frame) bind(v ssa.Value, body string) Term {
	vc := fr.vc
	s := vc.sortOf(v.Type())
	n := fmt.Sprintf("%s_%s", fr.id, v.Name())
	vc.define(n, s, body)
	t := Term{n, s, v.Type()}
	fr.vals[v] = t
	return t
}

func (fr *Frame) bindFresh(v ssa.Value) Term {
	vc := fr.vc
	s := vc.sortOf(v.Type())
	n := fmt.Sprintf("%s_%s", fr.id, v.Name())
	vc.declare(n, s)
	vc.assumeIf(fr.curReach, vc.wf(v.Type(), n))
	t := Term{n, s, v.Type()}
	fr.vals[v] = t
	return t
}

// lvalOf returns the location a pointer-typed SSA value designates.
func (fr *Frame) lvalOf(v ssa.Value) *LVal {
	vc := fr.vc
	if lv, ok := fr.lvals[v]; ok {
		return lv
	}
	switch v := v.(type) {
	case *ssa.Global:
		lv := &LVal{Comp: vc.globalComp(v), T: v.Type().(*types.Pointer).Elem()}
		fr.lvals[v] = lv
		return lv
	case *ssa.FreeVar:
		if lv, ok := fr.freeL[v]; ok {
			return lv
		}
	}
	pt, ok := v.Type().Underlying().(*types.Pointer)
	if !ok {
		vc.unsupportedf("lvalOf non-pointer %s", v.Type())
		return &LVal{Comp: vc.memComp(types.Typ[types.Int]), Ref: "0", T: types.Typ[types.Int]}
	}
	t := fr.val(v)
	return &LVal{Comp: vc.memComp(pt.Elem()), Ref: t.S, T: pt.Elem()}
}

func (fr *Frame) autoTags() []string {
	if fr.vc.spec != nil {
		return fr.vc.spec.Props
	}
	return nil
}

func (fr *Frame) nilCheck(ptr string, what string, pos token.Pos) {
	if ptr == "" {
		return
	}
	fr.vc.oblige("nil", fr.autoTags(), fr.curReach, fmt.Sprintf("(not (= %s 0))", ptr), "nil dereference: "+what, pos, nil)
}

func (fr *Frame) exec(ins ssa.Instruction, st *State) {
	vc := fr.vc
	switch ins := ins.(type) {
	case *ssa.DebugRef:
		return
	case *ssa.Alloc:
		elem := ins.Type().(*types.Pointer).Elem()
		r := vc.newRef(st, fr.curReach)
		comp := vc.allocComp2(ins)
		vc.set(st, comp, fmt.Sprintf("(store %s %s %s)", vc.get(st, comp), r, vc.zero(elem).S))
		fr.vals[ins] = Term{r, "Int", ins.Type()}
		fr.lvals[ins] = &LVal{Comp: comp, Ref: r, T: elem}
	case *ssa.FieldAddr:
		base := fr.lvalOf(ins.X)
		if _, isL := fr.lvals[ins.X]; !isL && base.Ref != "" {
			fr.nilCheck(base.Ref, fmt.Sprintf("%s.%s", ins.X.Name(), fieldName(base.T, ins.Field)), ins.Pos())
			if vc.isPooledPtr(ins.X.Type()) {
				fr.requireOwned(base.Ref, fmt.Sprintf("%s.%s", ins.X.Name(), fieldName(base.T, ins.Field)), ins.Pos(), st)
			}
		}
		ft := base.T.Underlying().(*types.Struct).Field(ins.Field).Type()
		lv := &LVal{Comp: base.Comp, Ref: base.Ref, Path: append(append([]pathElem{}, base.Path...), pathElem{field: ins.Field, structT: base.T}), T: ft}
		fr.lvals[ins] = lv
	case *ssa.IndexAddr:
		idx := fr.val(ins.Index)
		idxS := vc.toIndex(idx)
		switch xt := ins.X.Type().Underlying().(type) {
		case *types.Slice:
			s := fr.val(ins.X)
			vc.oblige("bounds", fr.autoTags(), fr.curReach, vc.inBounds(idxS, fmt.Sprintf("(sl_len %s)", s.S)), fmt.Sprintf("index in range: %s[%s]", ins.X.Name(), ins.Index.Name()), ins.Pos(), nil)
			fr.lvals[ins] = &LVal{Comp: vc.arrComp(xt.Elem()), Ref: fmt.Sprintf("(sl_ref %s)", s.S),
				Path: []pathElem{{field: -1, idx: vc.iadd(fmt.Sprintf("(sl_off %s)", s.S), idxS)}}, T: xt.Elem()}
		case *types.Pointer:
			at := xt.Elem().Underlying().(*types.Array)
			base := fr.lvalOf(ins.X)
			if _, isL := fr.lvals[ins.X]; !isL && base.Ref != "" {
				fr.nilCheck(base.Ref, ins.X.Name(), ins.Pos())
			}
			vc.oblige("bounds", fr.autoTags(), fr.curReach, vc.inBounds(idxS, vc.ilit(at.Len())), fmt.Sprintf("index in range: %s[%s] (array of %d)", ins.X.Name(), ins.Index.Name(), at.Len()), ins.Pos(), nil)
			fr.lvals[ins] = &LVal{Comp: base.Comp, Ref: base.Ref, Path: append(append([]pathElem{}, base.Path...), pathElem{field: -1, idx: idxS}), T: at.Elem()}
		default:
			vc.unsupportedf("IndexAddr on %s", ins.X.Type())
		}
	case *ssa.UnOp:
		fr.execUnOp(ins, st)
	case *ssa.Store:
		lv := fr.lvalOf(ins.Addr)
		if _, isL := fr.lvals[ins.Addr]; !isL && lv.Ref != "" {
			fr.nilCheck(lv.Ref, ins.Addr.Name(), ins.Pos())
		}
		fr.checkGuard(lv, true, ins.Pos())
		fr.checkElemsAtomic(ins.Addr, true, ins.Pos())
		vc.storeL(lv, fr.val(ins.Val).S, st)
		fr.poolNewStore(ins, lv)
	case *ssa.BinOp:
		fr.execBinOp(ins)
	case *ssa.Convert:
		fr.execConvert(ins, st)
	case *ssa.ChangeType:
		x := fr.val(ins.X)
		fr.vals[ins] = Term{x.S, x.Sort, ins.Type()}
	case *ssa.ChangeInterface:
		x := fr.val(ins.X)
		fr.vals[ins] = Term{x.S, x.Sort, ins.Type()}
	case *ssa.MakeInterface:
		fr.execMakeInterface(ins, st)
	case *ssa.TypeAssert:
		fr.execTypeAssert(ins, st)
	case *ssa.Extract:
		if parts, ok := fr.tupleParts[ins.Tuple]; ok {
			p := parts[ins.Index]
			fr.vals[ins] = Term{p.S, p.Sort, ins.Type()}
			return
		}
		tup := fr.val(ins.Tuple)
		fr.bind(ins, fmt.Sprintf("(%s_%d %s)", tup.Sort, ins.Index, tup.S))
	case *ssa.Field:
		x := fr.val(ins.X)
		f := ins.X.Type().Underlying().(*types.Struct).Field(ins.Field)
		fr.bind(ins, fmt.Sprintf("(%s_%s %s)", vc.sortOf(ins.X.Type()), f.Name(), x.S))
	case *ssa.Index:
		x := fr.val(ins.X)
		idx := vc.toIndex(fr.val(ins.Index))
		switch xt := ins.X.Type().Underlying().(type) {
		case *types.Array:
			vc.oblige("bounds", fr.autoTags(), fr.curReach, vc.inBounds(idx, vc.ilit(xt.Len())), "array index in range", ins.Pos(), nil)
			fr.bind(ins, fmt.Sprintf("(select %s %s)", x.S, idx))
		case *types.Basic: // string
			vc.oblige("bounds", fr.autoTags(), fr.curReach, vc.inBounds(idx, vc.fromInt(fmt.Sprintf("(str_len %s)", x.S))), "string index in range", ins.Pos(), nil)
			fr.bind(ins, fmt.Sprintf("(str_at %s %s)", x.S, idx))
		default:
			vc.unsupportedf("Index on %s", ins.X.Type())
			fr.bindFresh(ins)
		}
	case *ssa.Slice:
		fr.execSlice(ins, st)
	case *ssa.MakeSlice:
		ln := vc.toIndex(fr.val(ins.Len))
		cp := vc.toIndex(fr.val(ins.Cap))
		vc.oblige("makeslice", fr.autoTags(), fr.curReach, and(vc.ile(vc.ilit(0), ln), vc.ile(ln, cp)), "make: 0 <= len <= cap", ins.Pos(), nil)
		fr.allocBound(ins, ln)
		et := ins.Type().Underlying().(*types.Slice).Elem()
		r := vc.newRef(st, fr.curReach)
		comp := vc.arrComp(et)
		zarr := fmt.Sprintf("((as const (Array %s %s)) %s)", vc.isort(), vc.sortOf(et), vc.zero(et).S)
		vc.set(st, comp, fmt.Sprintf("(store %s %s %s)", vc.get(st, comp), r, zarr))
		fr.bind(ins, vc.mkSlice(r, vc.ilit(0), ln, cp))
	case *ssa.Call:
		fr.execCall(ins, st)
	case *ssa.Defer:
		fr.defers = append(fr.defers, &deferRec{instr: ins, block: fr.curBlock})
		if isLoopHead(fr.curBlock) || fr.inLoop(fr.curBlock) {
			vc.unsupportedf("defer inside a loop")
		}
	case *ssa.RunDefers:
		fr.runDefers(st, false)
	case *ssa.Go:
		fr.execGo(ins, st)
	case *ssa.MakeClosure:
		// closures are tracked symbolically; the value itself is an opaque handle
		r := vc.newRef(st, fr.curReach)
		fr.vals[ins] = Term{r, "Int", ins.Type()}
		fr.closures()[ins] = ins
		fr.checkClosureRequires(ins, st)
	case *ssa.MakeMap:
		fr.execMakeMap(ins, st)
	case *ssa.MakeChan:
		fr.execMakeChan(ins, st)
	case *ssa.Lookup:
		fr.execLookup(ins, st)
	case *ssa.MapUpdate:
		fr.execMapUpdate(ins, st)
	case *ssa.Send:
		fr.execSend(ins, st)
	case *ssa.Select:
		fr.execSelect(ins, st)
	case *ssa.Range:
		fr.execRange(ins, st)
	case *ssa.Next:
		fr.execNext(ins, st)
	default:
		vc.unsupportedf("instruction %T at %s", ins, vc.posOf(ins.Pos()))
		if v, ok := ins.(ssa.Value); ok {
			fr.bindFresh(v)
		}
	}
}

var snapTab = map[*Frame]map[ssa.Value]*LVal{}

func (fr *Frame) snaps() map[ssa.Value]*LVal {
	m := snapTab[fr]
	if m == nil {
		m = map[ssa.Value]*LVal{}
		snapTab[fr] = m
	}
	return m
}

var closureTab = map[*Frame]map[ssa.Value]*ssa.MakeClosure{}

func (fr *Frame) closures() map[ssa.Value]*ssa.MakeClosure {
	m := closureTab[fr]
	if m == nil {
		m = map[ssa.Value]*ssa.MakeClosure{}
		closureTab[fr] = m
	}
	return m
}

func (fr *Frame) inLoop(b *ssa.BasicBlock) bool {
	for _, h := range fr.fn.Blocks {
		if isLoopHead(h) && naturalLoop(h)[b] {
			return true
		}
	}
	return false
}

func fieldName(t types.Type, i int) string {
	if s, ok := t.Underlying().(*types.Struct); ok && i < s.NumFields() {
		return s.Field(i).Name()
	}
	return fmt.Sprint(i)
}

// ---- integer helpers (mode dependent) ----

// toIndex converts an integer term to the index sort (Int, or BitVec 64).
func (vc *VC) toIndex(t Term) string {
	if !vc.bv {
		return t.S
	}
	if t.T == nil {
		var w int
		if _, err := fmt.Sscanf(t.Sort, "(_ BitVec %d)", &w); err == nil && w < 64 {
			return fmt.Sprintf("((_ zero_extend %d) %s)", 64-w, t.S)
		}
		return t.S
	}
	w, signed, ok := intInfo(t.T)
	if !ok || w == 64 {
		return t.S
	}
	if signed {
		return fmt.Sprintf("((_ sign_extend %d) %s)", 64-w, t.S)
	}
	return fmt.Sprintf("((_ zero_extend %d) %s)", 64-w, t.S)
}

// fromInt embeds an Int-sorted term into the index sort.
func (vc *VC) fromInt(s string) string {
	if vc.bv {
		return fmt.Sprintf("((_ int2bv 64) %s)", s)
	}
	return s
}

func (vc *VC) iadd(a, b string) string {
	if vc.bv {
		return fmt.Sprintf("(bvadd %s %s)", a, b)
	}
	if a == "0" {
		return b
	}
	if b == "0" {
		return a
	}
	return fmt.Sprintf("(+ %s %s)", a, b)
}

func (vc *VC) isub(a, b string) string {
	if vc.bv {
		return fmt.Sprintf("(bvsub %s %s)", a, b)
	}
	if b == "0" {
		return a
	}
	return fmt.Sprintf("(- %s %s)", a, b)
}

func (vc *VC) ile(a, b string) string {
	if vc.bv {
		return fmt.Sprintf("(bvsle %s %s)", a, b)
	}
	return fmt.Sprintf("(<= %s %s)", a, b)
}

func (vc *VC) ilt(a, b string) string {
	if vc.bv {
		return fmt.Sprintf("(bvslt %s %s)", a, b)
	}
	return fmt.Sprintf("(< %s %s)", a, b)
}

func (vc *VC) inBounds(i, n string) string {
	return and(vc.ile(vc.ilit(0), i), vc.ilt(i, n))
}

func (fr *Frame) execUnOp(ins *ssa.UnOp, st *State) {
	vc := fr.vc
	switch ins.Op {
	case token.MUL: // load
		lv := fr.lvalOf(ins.X)
		if _, isL := fr.lvals[ins.X]; !isL && lv.Ref != "" {
			fr.nilCheck(lv.Ref, ins.X.Name(), ins.Pos())
		}
		fr.checkGuard(lv, false, ins.Pos())
		fr.checkElemsAtomic(ins.X, false, ins.Pos())
		if g, ok := ins.X.(*ssa.Global); ok {
			if t, ok := fr.globalConst(g); ok {
				fr.vals[ins] = t
				return
			}
		}
		t := vc.loadL(lv, st)
		fr.bind(ins, t.S)
		vc.assumeIf(fr.curReach, vc.wf(ins.Type(), fr.vals[ins].S))
		fr.ptrFact(ins, st)
	case token.NOT:
		fr.bind(ins, fmt.Sprintf("(not %s)", fr.val(ins.X).S))
	case token.SUB:
		x := fr.val(ins.X)
		if isFloat(ins.Type()) {
			vc.unsupportedf("float negation")
			fr.bindFresh(ins)
			return
		}
		w, signed, _ := intInfo(ins.Type())
		if vc.bv {
			fr.bind(ins, fmt.Sprintf("(bvneg %s)", x.S))
		} else if signed {
			fr.bind(ins, fmt.Sprintf("(- %s)", x.S))
		} else {
			fr.bind(ins, fmt.Sprintf("(mod (- %s) %s)", x.S, pow2(w)))
		}
	case token.XOR:
		x := fr.val(ins.X)
		w, signed, _ := intInfo(ins.Type())
		if vc.bv {
			fr.bind(ins, fmt.Sprintf("(bvnot %s)", x.S))
		} else if signed {
			fr.bind(ins, fmt.Sprintf("(- (- %s) 1)", x.S))
		} else {
			fr.bind(ins, fmt.Sprintf("(- %s 1 %s)", pow2(w), x.S))
		}
	case token.ARROW:
		fr.execRecv(ins, st)
	default:
		vc.unsupportedf("unop %s", ins.Op)
		fr.bindFresh(ins)
	}
}

// ptrFact: loaded pointers/refs are below the allocation watermark.
func (fr *Frame) ptrFact(v ssa.Value, st *State) {
	vc := fr.vc
	switch v.Type().Underlying().(type) {
	case *types.Pointer, *types.Chan, *types.Map:
		vc.assumeIf(fr.curReach, fmt.Sprintf("(< %s %s)", fr.vals[v].S, vc.get(st, vc.allocComp())))
	case *types.Slice:
		vc.assumeIf(fr.curReach, fmt.Sprintf("(< (sl_ref %s) %s)", fr.vals[v].S, vc.get(st, vc.allocComp())))
	}
}

func (fr *Frame) execBinOp(ins *ssa.BinOp) {
	vc := fr.vc
	x, y := fr.val(ins.X), fr.val(ins.Y)
	xt := ins.X.Type()
	op := ins.Op
	// comparisons
	switch op {
	case token.EQL, token.NEQ:
		eq := fmt.Sprintf("(= %s %s)", x.S, y.S)
		if isFloat(xt) {
			vc.unsupportedf("float comparison")
		}
		if op == token.NEQ {
			eq = fmt.Sprintf("(not %s)", eq)
		}
		fr.bind(ins, eq)
		return
	case token.LSS, token.LEQ, token.GTR, token.GEQ:
		if isString(xt) || isFloat(xt) {
			if isFloat(xt) {
				fr.bind(ins, fmt.Sprintf("(%s %s %s)", map[token.Token]string{token.LSS: "f64_lt", token.LEQ: "f64_le", token.GTR: "f64_gt", token.GEQ: "f64_ge"}[op], x.S, y.S))
				return
			}
			vc.unsupportedf("ordered comparison on %s", xt)
			fr.bindFresh(ins)
			return
		}
		_, signed, _ := intInfo(xt)
		var o string
		if vc.bv {
			o = map[token.Token]string{token.LSS: "bvult", token.LEQ: "bvule", token.GTR: "bvugt", token.GEQ: "bvuge"}[op]
			if signed {
				o = map[token.Token]string{token.LSS: "bvslt", token.LEQ: "bvsle", token.GTR: "bvsgt", token.GEQ: "bvsge"}[op]
			}
		} else {
			o = map[token.Token]string{token.LSS: "<", token.LEQ: "<=", token.GTR: ">", token.GEQ: ">="}[op]
		}
		fr.bind(ins, fmt.Sprintf("(%s %s %s)", o, x.S, y.S))
		return
	}
	if isBool(ins.Type()) {
		switch op {
		case token.AND, token.LAND:
			fr.bind(ins, fmt.Sprintf("(and %s %s)", x.S, y.S))
		case token.OR, token.LOR:
			fr.bind(ins, fmt.Sprintf("(or %s %s)", x.S, y.S))
		default:
			vc.unsupportedf("bool binop %s", op)
			fr.bindFresh(ins)
		}
		return
	}
	if isString(ins.Type()) {
		if op == token.ADD {
			fr.bind(ins, fmt.Sprintf("(str_cat %s %s)", x.S, y.S))
			return
		}
	}
	if isFloat(ins.Type()) {
		f := map[token.Token]string{token.ADD: "f64_add", token.SUB: "f64_sub", token.MUL: "f64_mul", token.QUO: "f64_div"}[op]
		if f == "" {
			vc.unsupportedf("float binop %s", op)
			fr.bindFresh(ins)
			return
		}
		fr.bind(ins, fmt.Sprintf("(%s %s %s)", f, x.S, y.S))
		return
	}
	w, signed, ok := intInfo(ins.Type())
	if !ok {
		vc.unsupportedf("binop %s on %s", op, ins.Type())
		fr.bindFresh(ins)
		return
	}
	if vc.bv {
		fr.bind(ins, vc.bvBinOp(ins, x, y, w, signed))
		return
	}
	// arithmetic results are named by constants (not macros), so that index terms such as a[off + i]
	// keep the shape the quantifier triggers were written for
	body := fr.intBinOp(ins, x, y, w, signed)
	s := vc.sortOf(ins.Type())
	n := fmt.Sprintf("%s_%s", fr.id, ins.Name())
	vc.declare(n, s)
	vc.assume(fmt.Sprintf("(= %s %s)", n, body))
	fr.vals[ins] = Term{n, s, ins.Type()}
}

func (vc *VC) bvBinOp(ins *ssa.BinOp, x, y Term, w int, signed bool) string {
	op := ins.Op
	ys := y.S
	if op == token.SHL || op == token.SHR {
		// shift count may have a different width: resize to w (counts >= w saturate in Go; SMT bvshl/bvlshr give 0 too)
		yw, _, _ := intInfo(ins.Y.Type())
		if yw < w {
			ys = fmt.Sprintf("((_ zero_extend %d) %s)", w-yw, ys)
		} else if yw > w {
			// saturate: if y >= w then w else y
			ys = fmt.Sprintf("(ite (bvuge %s (_ bv%d %d)) (_ bv%d %d) ((_ extract %d 0) %s))", ys, w, yw, w, w, w-1, ys)
		}
	}
	switch op {
	case token.ADD:
		return fmt.Sprintf("(bvadd %s %s)", x.S, ys)
	case token.SUB:
		return fmt.Sprintf("(bvsub %s %s)", x.S, ys)
	case token.MUL:
		return fmt.Sprintf("(bvmul %s %s)", x.S, ys)
	case token.QUO:
		vc.divCheck(ins, fmt.Sprintf("(not (= %s (_ bv0 %d)))", ys, w))
		if signed {
			return fmt.Sprintf("(bvsdiv %s %s)", x.S, ys)
		}
		return fmt.Sprintf("(bvudiv %s %s)", x.S, ys)
	case token.REM:
		vc.divCheck(ins, fmt.Sprintf("(not (= %s (_ bv0 %d)))", ys, w))
		if signed {
			return fmt.Sprintf("(bvsrem %s %s)", x.S, ys)
		}
		return fmt.Sprintf("(bvurem %s %s)", x.S, ys)
	case token.AND:
		return fmt.Sprintf("(bvand %s %s)", x.S, ys)
	case token.OR:
		return fmt.Sprintf("(bvor %s %s)", x.S, ys)
	case token.XOR:
		return fmt.Sprintf("(bvxor %s %s)", x.S, ys)
	case token.AND_NOT:
		return fmt.Sprintf("(bvand %s (bvnot %s))", x.S, ys)
	case token.SHL:
		return fmt.Sprintf("(bvshl %s %s)", x.S, ys)
	case token.SHR:
		if signed {
			return fmt.Sprintf("(bvashr %s %s)", x.S, ys)
		}
		return fmt.Sprintf("(bvlshr %s %s)", x.S, ys)
	}
	vc.unsupportedf("bv binop %s", op)
	return x.S
}

var curFrameForDiv *Frame

func (vc *VC) divCheck(ins *ssa.BinOp, nz string) {
	fr := curFrameForDiv
	if fr == nil {
		return
	}
	vc.oblige("divzero", fr.autoTags(), fr.curReach, nz, "division by zero", ins.Pos(), nil)
}

func constInt(v ssa.Value) (*big.Int, bool) {
	c, ok := v.(*ssa.Const)
	if !ok || c.Value == nil || c.Value.Kind() != constant.Int {
		return nil, false
	}
	bi, ok := new(big.Int).SetString(c.Value.ExactString(), 10)
	return bi, ok
}

func (fr *Frame) intBinOp(ins *ssa.BinOp, x, y Term, w int, signed bool) string {
	vc := fr.vc
	op := ins.Op
	wrap := func(e string) string {
		if signed {
			if fr.vc.spec != nil && fr.vc.spec.NoWrap {
				vc.oblige("overflow", fr.autoTags(), fr.curReach, fmt.Sprintf("(and (<= (- %s) %s) (< %s %s))", pow2(w-1), e, e, pow2(w-1)), fmt.Sprintf("signed %d-bit arithmetic does not overflow: %s", w, ins.String()), ins.Pos(), nil)
			} else {
				vc.note("signed integer arithmetic treated as mathematical (no overflow modelled) in %s", vc.name)
			}
			return e
		}
		if fr.vc.spec != nil && fr.vc.spec.NoWrap {
			vc.oblige("wrap", fr.autoTags(), fr.curReach, fmt.Sprintf("(and (<= 0 %s) (< %s %s))", e, e, pow2(w)), fmt.Sprintf("unsigned %d-bit arithmetic does not wrap: %s", w, ins.String()), ins.Pos(), nil)
		}
		return fmt.Sprintf("(mod %s %s)", e, pow2(w))
	}
	switch op {
	case token.ADD:
		return wrap(fmt.Sprintf("(+ %s %s)", x.S, y.S))
	case token.SUB:
		return wrap(fmt.Sprintf("(- %s %s)", x.S, y.S))
	case token.MUL:
		return wrap(fmt.Sprintf("(* %s %s)", x.S, y.S))
	case token.QUO:
		vc.oblige("divzero", fr.autoTags(), fr.curReach, fmt.Sprintf("(not (= %s 0))", y.S), "division by zero", ins.Pos(), nil)
		if signed {
			return fmt.Sprintf("(go_div %s %s)", x.S, y.S)
		}
		return fmt.Sprintf("(div %s %s)", x.S, y.S)
	case token.REM:
		vc.oblige("divzero", fr.autoTags(), fr.curReach, fmt.Sprintf("(not (= %s 0))", y.S), "division by zero", ins.Pos(), nil)
		if signed {
			return fmt.Sprintf("(go_rem %s %s)", x.S, y.S)
		}
		return fmt.Sprintf("(mod %s %s)", x.S, y.S)
	case token.SHL:
		if c, ok := constInt(ins.Y); ok && c.IsInt64() && c.Int64() < int64(w) {
			return wrap(fmt.Sprintf("(* %s %s)", x.S, pow2(int(c.Int64()))))
		}
		if cx, ok := constInt(ins.X); ok && cx.Int64() == 1 {
			// 1 << y
			return fmt.Sprintf("(pow2 %s)", y.S)
		}
		return fmt.Sprintf("(shl_int %s %s)", x.S, y.S)
	case token.SHR:
		if c, ok := constInt(ins.Y); ok && c.IsInt64() {
			if c.Int64() >= int64(w) && !signed {
				return "0"
			}
			return fmt.Sprintf("(div %s %s)", x.S, pow2(int(c.Int64())))
		}
		return fmt.Sprintf("(shr_int %s %s)", x.S, y.S)
	case token.AND:
		for _, pair := range [][2]ssa.Value{{ins.X, ins.Y}, {ins.Y, ins.X}} {
			if c, ok := constInt(pair[1]); ok {
				// mask 2^k-1
				m := new(big.Int).Add(c, big.NewInt(1))
				if c.Sign() >= 0 && m.BitLen() > 0 && new(big.Int).And(m, c).Sign() == 0 && !signed {
					return fmt.Sprintf("(mod %s %s)", fr.val(pair[0]).S, m.String())
				}
				if c.Sign() >= 0 && new(big.Int).And(m, c).Sign() == 0 {
					return fmt.Sprintf("(mod %s %s)", fr.val(pair[0]).S, m.String())
				}
			}
		}
		return fmt.Sprintf("(bitand_int %s %s)", x.S, y.S)
	case token.OR:
		return fmt.Sprintf("(bitor_int %s %s)", x.S, y.S)
	case token.XOR:
		return fmt.Sprintf("(bitxor_int %s %s)", x.S, y.S)
	case token.AND_NOT:
		return fmt.Sprintf("(bitandnot_int %s %s)", x.S, y.S)
	}
	vc.unsupportedf("int binop %s", op)
	return x.S
}

func (fr *Frame) execConvert(ins *ssa.Convert, st *State) {
	vc := fr.vc
	x := fr.val(ins.X)
	from, to := ins.X.Type(), ins.Type()
	fw, fs, fok := intInfo(from)
	tw, ts, tok := intInfo(to)
	switch {
	case fok && tok:
		if vc.bv {
			switch {
			case tw == fw:
				fr.bind(ins, x.S)
			case tw < fw:
				fr.bind(ins, fmt.Sprintf("((_ extract %d 0) %s)", tw-1, x.S))
			case fs:
				fr.bind(ins, fmt.Sprintf("((_ sign_extend %d) %s)", tw-fw, x.S))
			default:
				fr.bind(ins, fmt.Sprintf("((_ zero_extend %d) %s)", tw-fw, x.S))
			}
			return
		}
		// int mode
		fits := false
		if !fs && !ts && tw >= fw {
			fits = true
		}
		if fs && ts && tw >= fw {
			fits = true
		}
		if !fs && ts && tw > fw {
			fits = true
		}
		if fits {
			fr.bind(ins, x.S)
			return
		}
		if fr.vc.spec != nil && fr.vc.spec.NoWrap {
			var rng string
			if ts {
				rng = fmt.Sprintf("(and (<= (- %s) %s) (< %s %s))", pow2(tw-1), x.S, x.S, pow2(tw-1))
			} else {
				rng = fmt.Sprintf("(and (<= 0 %s) (< %s %s))", x.S, x.S, pow2(tw))
			}
			vc.oblige("convert", fr.autoTags(), fr.curReach, rng, fmt.Sprintf("integer conversion %s <- %s keeps the value", to, from), ins.Pos(), nil)
		}
		if !ts {
			fr.bind(ins, fmt.Sprintf("(mod %s %s)", x.S, pow2(tw)))
		} else {
			fr.bind(ins, fmt.Sprintf("(let ((m (mod %s %s))) (ite (< m %s) m (- m %s)))", x.S, pow2(tw), pow2(tw-1), pow2(tw)))
		}
	case isString(from) && isByteSlice(to):
		// []byte(s): fresh backing array, capacity not assumed equal to length
		r := vc.newRef(st, fr.curReach)
		cp := vc.fresh("cap")
		vc.declare(cp, vc.isort())
		ln := vc.fromInt(fmt.Sprintf("(str_len %s)", x.S))
		vc.assumeIf(fr.curReach, and(vc.ile(ln, cp), vc.ilt(cp, vc.ilit(1<<40))))
		comp := vc.arrComp(types.Typ[types.Uint8])
		arr := vc.fresh("strbytes")
		vc.declare(arr, fmt.Sprintf("(Array %s %s)", vc.isort(), vc.sortOf(types.Typ[types.Uint8])))
		vc.assumeIf(fr.curReach, fmt.Sprintf("(forall ((j %s)) (! (=> %s (= (select %s j) (str_at %s j))) :pattern ((select %s j))))", vc.isort(), and(vc.ile(vc.ilit(0), "j"), vc.ilt("j", ln)), arr, x.S, arr))
		vc.set(st, comp, fmt.Sprintf("(store %s %s %s)", vc.get(st, comp), r, arr))
		fr.bind(ins, vc.mkSlice(r, vc.ilit(0), ln, cp))
	case isByteSlice(from) && isString(to):
		// string(b): an uninterpreted string determined by the bytes
		comp := vc.arrComp(types.Typ[types.Uint8])
		fr.bind(ins, fmt.Sprintf("(str_of (select %s (sl_ref %s)) (sl_off %s) (sl_len %s))", vc.get(st, comp), x.S, x.S, x.S))
		vc.assumeIf(fr.curReach, fmt.Sprintf("(= (str_len %s) %s)", fr.vals[ins].S, vc.toIntS(fmt.Sprintf("(sl_len %s)", x.S))))
	case fok && isFloat(to):
		fr.bind(ins, fmt.Sprintf("(f64_of_int %s)", vc.toIntTerm(x)))
	case isFloat(from) && tok:
		fr.bind(ins, vc.fromIntTyped(fmt.Sprintf("(int_of_f64 %s)", x.S), to))
		vc.assumeIf(fr.curReach, vc.wf(to, fr.vals[ins].S))
	case isFloat(from) && isFloat(to):
		b1 := from.Underlying().(*types.Basic)
		b2 := to.Underlying().(*types.Basic)
		if b1.Kind() == b2.Kind() || b2.Kind() == types.Float64 {
			fr.bind(ins, x.S)
		} else {
			fr.bind(ins, fmt.Sprintf("(f32_round %s)", x.S))
		}
	default:
		if _, ok := to.Underlying().(*types.Pointer); ok {
			fr.bind(ins, x.S)
			return
		}
		vc.unsupportedf("convert %s <- %s", to, from)
		fr.bindFresh(ins)
	}
}

// toIntS converts an index-sorted term to Int.
func (vc *VC) toIntS(s string) string {
	if vc.bv {
		return fmt.Sprintf("(bv2nat %s)", s)
	}
	return s
}

func (vc *VC) toIntTerm(t Term) string {
	if !vc.bv {
		return t.S
	}
	_, signed, _ := intInfo(t.T)
	if signed {
		w, _, _ := intInfo(t.T)
		return fmt.Sprintf("(let ((u (bv2nat %s))) (ite (< u %s) u (- u %s)))", t.S, pow2(w-1), pow2(w))
	}
	return fmt.Sprintf("(bv2nat %s)", t.S)
}

func (vc *VC) fromIntTyped(s string, t types.Type) string {
	if !vc.bv {
		return s
	}
	w, _, _ := intInfo(t)
	return fmt.Sprintf("((_ int2bv %d) %s)", w, s)
}

func isByteSlice(t types.Type) bool {
	s, ok := t.Underlying().(*types.Slice)
	if !ok {
		return false
	}
	b, ok := s.Elem().Underlying().(*types.Basic)
	return ok && b.Kind() == types.Uint8
}

func (fr *Frame) execSlice(ins *ssa.Slice, st *State) {
	vc := fr.vc
	var lo, hi, max string
	if ins.Low != nil {
		lo = vc.toIndex(fr.val(ins.Low))
	} else {
		lo = vc.ilit(0)
	}
	if ins.High != nil {
		hi = vc.toIndex(fr.val(ins.High))
	}
	if ins.Max != nil {
		max = vc.toIndex(fr.val(ins.Max))
	}
	switch xt := ins.X.Type().Underlying().(type) {
	case *types.Slice:
		s := fr.val(ins.X)
		ln := fmt.Sprintf("(sl_len %s)", s.S)
		cp := fmt.Sprintf("(sl_cap %s)", s.S)
		if hi == "" {
			hi = ln
		}
		lim := cp
		if max != "" {
			lim = max
			vc.oblige("slice", fr.autoTags(), fr.curReach, vc.ile(max, cp), "slice max within capacity", ins.Pos(), nil)
		}
		vc.oblige("slice", fr.autoTags(), fr.curReach, and(vc.ile(vc.ilit(0), lo), vc.ile(lo, hi), vc.ile(hi, lim)), fmt.Sprintf("slice bounds: 0 <= lo <= hi <= cap of %s", ins.X.Name()), ins.Pos(), nil)
		fr.bind(ins, vc.mkSlice(fmt.Sprintf("(sl_ref %s)", s.S), vc.iadd(fmt.Sprintf("(sl_off %s)", s.S), lo), vc.isub(hi, lo), vc.isub(lim, lo)))
	case *types.Pointer:
		at := xt.Elem().Underlying().(*types.Array)
		base := fr.lvalOf(ins.X)
		n := vc.ilit(at.Len())
		if hi == "" {
			hi = n
		}
		lim := n
		if max != "" {
			lim = max
		}
		vc.oblige("slice", fr.autoTags(), fr.curReach, and(vc.ile(vc.ilit(0), lo), vc.ile(lo, hi), vc.ile(hi, lim), vc.ile(lim, n)), "slice bounds of array", ins.Pos(), nil)
		if len(base.Path) != 0 || base.Ref == "" || !strings.HasPrefix(base.Comp, "Arr!") {
			// an array embedded in a struct or a global: the slice refers to a snapshot object holding
			// the array's current value; copy() into such a slice is written back (see execCopy); any
			// other write through it is outside the subset.
			r := vc.newRef(st, fr.curReach)
			comp := vc.arrComp(at.Elem())
			cur := vc.loadL(base, st)
			vc.set(st, comp, fmt.Sprintf("(store %s %s %s)", vc.get(st, comp), r, cur.S))
			fr.bind(ins, vc.mkSlice(r, lo, vc.isub(hi, lo), vc.isub(lim, lo)))
			fr.snaps()[ins] = base
			return
		}
		fr.bind(ins, vc.mkSlice(base.Ref, lo, vc.isub(hi, lo), vc.isub(lim, lo)))
	case *types.Basic: // string
		s := fr.val(ins.X)
		ln := vc.fromInt(fmt.Sprintf("(str_len %s)", s.S))
		if hi == "" {
			hi = ln
		}
		vc.oblige("slice", fr.autoTags(), fr.curReach, and(vc.ile(vc.ilit(0), lo), vc.ile(lo, hi), vc.ile(hi, ln)), "substring bounds", ins.Pos(), nil)
		fr.bind(ins, fmt.Sprintf("(str_sub %s %s %s)", s.S, lo, hi))
		vc.assumeIf(fr.curReach, fmt.Sprintf("(= (str_len %s) %s)", fr.vals[ins].S, vc.toIntS(vc.isub(hi, lo))))
	default:
		vc.unsupportedf("Slice on %s", ins.X.Type())
		fr.bindFresh(ins)
	}
}

// ---- interfaces ----

func (vc *VC) tid(t types.Type) string {
	k := typeKey(t)
	name := "tid_" + k
	if !vc.declared[name] {
		vc.declared[name] = true
		id := len(vc.tids) + 1
		vc.tids[k] = id
		vc.decls = append(vc.decls, fmt.Sprintf("(define-fun %s () Int %d)", name, id))
	}
	return name
}

func (vc *VC) boxFns(t types.Type) (string, string) {
	k := typeKey(t)
	box, unbox := "box_"+k, "unbox_"+k
	if !vc.declared[box] {
		vc.declared[box] = true
		s := vc.sortOf(t)
		vc.decls = append(vc.decls, fmt.Sprintf("(declare-fun %s (%s) Int)", box, s), fmt.Sprintf("(declare-fun %s (Int) %s)", unbox, s))
	}
	return box, unbox
}

func (fr *Frame) execMakeInterface(ins *ssa.MakeInterface, st *State) {
	vc := fr.vc
	x := fr.val(ins.X)
	xt := ins.X.Type()
	box, unbox := vc.boxFns(xt)
	fr.bind(ins, fmt.Sprintf("(%s %s)", box, x.S))
	h := fr.vals[ins].S
	vc.assume(fmt.Sprintf("(and (> %s 0) (= (dyntype %s) %s) (= (%s %s) %s))", h, h, vc.tid(xt), unbox, h, x.S))
	// stream identities behind bufio values
	switch typeKey(xt) {
	case "Pbufio_Reader":
		vc.assume(fmt.Sprintf("(= %s %s)", vc.canon("rd", h), h))
	case "Pbufio_Writer":
		vc.assume(fmt.Sprintf("(= %s %s)", vc.canon("wr", h), h))
	case "Pbufio_ReadWriter":
		pt := xt.Underlying().(*types.Pointer)
		stt := pt.Elem().Underlying().(*types.Struct)
		comp := vc.memComp(pt.Elem())
		cell := fmt.Sprintf("(select %s %s)", vc.get(st, comp), x.S)
		ss := vc.sortOf(pt.Elem())
		for i := 0; i < stt.NumFields(); i++ {
			f := stt.Field(i)
			box, _ := vc.boxFns(f.Type())
			inner := fmt.Sprintf("(%s (%s_%s %s))", box, ss, f.Name(), cell)
			if f.Name() == "Reader" {
				vc.assume(fmt.Sprintf("(= %s %s)", vc.canon("rd", h), vc.canon("rd", inner)))
				vc.assume(fmt.Sprintf("(= %s %s)", vc.canon("rd", inner), inner))
			}
			if f.Name() == "Writer" {
				vc.assume(fmt.Sprintf("(= %s %s)", vc.canon("wr", h), vc.canon("wr", inner)))
				vc.assume(fmt.Sprintf("(= %s %s)", vc.canon("wr", inner), inner))
			}
		}
	}
}

func (fr *Frame) execTypeAssert(ins *ssa.TypeAssert, st *State) {
	vc := fr.vc
	x := fr.val(ins.X)
	at := ins.AssertedType
	if _, isIface := at.Underlying().(*types.Interface); isIface {
		// interface-to-interface assertion: succeeds iff the dynamic type implements it
		okc := fmt.Sprintf("(implements_%s (dyntype %s))", typeKey(at), x.S)
		name := "implements_" + typeKey(at)
		if _, inSpec := vc.db.Sigs[name]; !vc.declared[name] && !inSpec {
			vc.declared[name] = true
			vc.decls = append(vc.decls, fmt.Sprintf("(declare-fun %s (Int) Bool)", name))
		}
		okc = and(fmt.Sprintf("(not (= %s 0))", x.S), okc)
		if ins.CommaOk {
			okn := vc.fresh("ok")
			vc.define(okn, "Bool", okc)
			fr.tupleParts[ins] = []Term{{x.S, "Int", at}, {okn, "Bool", types.Typ[types.Bool]}}
			fr.vals[ins] = Term{"tuple", "tuple", ins.Type()}
			return
		}
		vc.oblige("typeassert", fr.autoTags(), fr.curReach, okc, fmt.Sprintf("type assertion to %s succeeds", at), ins.Pos(), nil)
		fr.vals[ins] = Term{x.S, "Int", at}
		return
	}
	_, unbox := vc.boxFns(at)
	okc := fmt.Sprintf("(= (dyntype %s) %s)", x.S, vc.tid(at))
	v := fmt.Sprintf("(%s %s)", unbox, x.S)
	if ins.CommaOk {
		okn := vc.fresh("ok")
		vc.define(okn, "Bool", okc)
		vn := vc.fresh("asserted")
		vc.define(vn, vc.sortOf(at), fmt.Sprintf("(ite %s %s %s)", okn, v, vc.zero(at).S))
		fr.tupleParts[ins] = []Term{{vn, vc.sortOf(at), at}, {okn, "Bool", types.Typ[types.Bool]}}
		fr.vals[ins] = Term{"tuple", "tuple", ins.Type()}
		vc.assumeIf(and(fr.curReach, okn), vc.wf(at, vn))
		return
	}
	vc.oblige("typeassert", fr.autoTags(), fr.curReach, okc, fmt.Sprintf("type assertion to %s succeeds", at), ins.Pos(), nil)
	fr.bind(ins, v)
	vc.assumeIf(fr.curReach, vc.wf(at, fr.vals[ins].S))
}

// globalConst resolves loads of sentinel/const-table globals.
func (fr *Frame) globalConst(g *ssa.Global) (Term, bool) {
	vc := fr.vc
	key := shortPkg(g.Pkg.Pkg.Path()) + "." + g.Name()
	t := g.Type().(*types.Pointer).Elem()
	if types.Identical(t, types.Universe.Lookup("error").Type()) {
		// error-typed package variables are sentinels (checked: never stored to outside init)
		return Term{vc.sentinel(key), "Int", t}, true
	}
	if gs, ok := vc.db.Globals[key]; ok && gs.Kind == "sentinel" {
		return Term{vc.sentinel(key), vc.sortOf(t), t}, true
	}
	return Term{}, false
}

func (vc *VC) sentinel(key string) string {
	name := "err_" + smtIdent(key)
	if !vc.declared[name] {
		vc.declared[name] = true
		// distinct positive handles: 1000 + index by declaration order is fragile; use an injective tag function
		vc.decls = append(vc.decls, fmt.Sprintf("(declare-const %s Int)", name))
		vc.decls = append(vc.decls, fmt.Sprintf("(assert (= %s (sentinel_of %d)))", name, len(vc.sentinelList())))
		sentinelsMu.Lock()
		sentinels[vc] = append(sentinels[vc], name)
		sentinelsMu.Unlock()
	}
	return name
}

var sentinels = map[*VC][]string{}
var sentinelsMu sync.RWMutex

func (vc *VC) sentinelList() []string {
	sentinelsMu.RLock()
	defer sentinelsMu.RUnlock()
	return append([]string(nil), sentinels[vc]...)
}

// poolNewStore: storing a function whose contract says `pool_new K` into the New field of a sync.Pool
// makes that pool a kind-K pool (poolkind is what sync.Pool.Get's contract is keyed on).
func (fr *Frame) poolNewStore(ins *ssa.Store, lv *LVal) {
	vc := fr.vc
	var fn *ssa.Function
	switch v := ins.Val.(type) {
	case *ssa.Function:
		fn = v
	case *ssa.MakeClosure:
		fn, _ = v.Fn.(*ssa.Function)
	}
	if fn == nil || lv.Ref == "" || len(lv.Path) != 1 || lv.Path[0].field < 0 {
		return
	}
	n, ok := lv.Path[0].structT.(*types.Named)
	if !ok || n.Obj().Pkg() == nil || n.Obj().Pkg().Path() != "sync" || n.Obj().Name() != "Pool" || fieldName(lv.Path[0].structT, lv.Path[0].field) != "New" {
		return
	}
	spec := vc.lookupSpec(qualName(fn))
	if spec == nil || spec.PoolNew == 0 {
		return
	}
	vc.callees[spec.Key] = true
	vc.assumeIf(fr.curReach, fmt.Sprintf("(= (poolkind %s) %d)", lv.Ref, spec.PoolNew))
}

// checkClosureRequires: pre-conditions a closure's contract states about its captured variables are
// obligations where the closure is created (the captured cells hold their values from then on: a
// closure with such a contract must not have its captured variables reassigned — checked too).
func (fr *Frame) checkClosureRequires(mc *ssa.MakeClosure, st *State) {
	vc := fr.vc
	fn, ok := mc.Fn.(*ssa.Function)
	if !ok {
		return
	}
	spec := vc.lookupSpec(qualName(fn))
	if spec == nil || len(spec.Requires) == 0 {
		return
	}
	env := map[string]Term{}
	for k, fv := range fn.FreeVars {
		if k >= len(mc.Bindings) {
			break
		}
		lv := fr.lvalOf(mc.Bindings[k])
		env[fv.Name()] = vc.loadL(lv, st)
		if al, ok := mc.Bindings[k].(*ssa.Alloc); ok {
			stable := true
			if refs := al.Referrers(); refs != nil {
				for _, r := range *refs {
					if s, ok := r.(*ssa.Store); ok && s.Addr == al && !(s.Block().Dominates(mc.Block())) {
						stable = false
					}
				}
			}
			if freeVarWritten(fv) {
				stable = false
			}
			if !stable {
				vc.oblige("closure", fr.autoTags(), fr.curReach, "false", fmt.Sprintf("variable %s captured by %s is assigned after the closure was created (its contract relies on the captured value)", fv.Name(), spec.Key), mc.Pos(), nil)
			}
		}
	}
	ctx := &SpecCtx{vc: vc, env: env, st: st, old: st, pkg: spec.Pkg}
	for _, rq := range spec.Requires {
		g, err := ctx.evalBool(rq.E)
		if err != nil {
			vc.note("pre-condition of closure %s not checked at its creation (it mentions more than captured variables): %s", spec.Key, rq.Text)
			continue
		}
		vc.oblige("precondition", fr.tagsFor(rq.Tags), fr.curReach, g, fmt.Sprintf("pre-condition of closure %s on its captured variables: %s", spec.Key, rq.Text), mc.Pos(), rq)
	}
}
