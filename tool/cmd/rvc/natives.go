package main

import (
	"fmt"
	"go/token"
	"go/types"

	"golang.org/x/tools/go/ssa"
)

// nativeCall: a trusted stdlib contract that needs lvalue access and is therefore built in.
type nativeCall struct {
	exec     func(fr *Frame, cc *ssa.CallCommon, st *State, pos token.Pos) []Term
	modifies func(fr *Frame, cc *ssa.CallCommon) []string
	doc      string
}

var nativeCalls = map[string]*nativeCall{}

func init() {
	for _, ty := range []string{"Uint64", "Uint32", "Int64", "Int32"} {
		ty := ty
		nativeCalls["sync/atomic.Add"+ty] = &nativeCall{exec: atomicAdd, modifies: atomicMods, doc: "sequentially consistent read-modify-write"}
		nativeCalls["sync/atomic.Load"+ty] = &nativeCall{exec: atomicLoad, modifies: func(*Frame, *ssa.CallCommon) []string { return nil }, doc: "atomic load"}
		nativeCalls["sync/atomic.Store"+ty] = &nativeCall{exec: atomicStore, modifies: atomicMods, doc: "atomic store"}
		nativeCalls["sync/atomic.CompareAndSwap"+ty] = &nativeCall{exec: atomicCAS, modifies: atomicMods, doc: "atomic compare-and-swap"}
	}
}

func atomicMods(fr *Frame, cc *ssa.CallCommon) []string {
	return fr.compsOfAddr(cc.Args[0])
}

func (fr *Frame) atomicLV(cc *ssa.CallCommon, pos token.Pos) *LVal {
	lv := fr.lvalOf(cc.Args[0])
	if _, isL := fr.lvals[cc.Args[0]]; !isL && lv.Ref != "" {
		fr.nilCheck(lv.Ref, "atomic operand", pos)
	}
	fr.vc.callees["sync/atomic (sequentially consistent RMW, trusted)"] = true
	fr.markAtomic(lv, pos)
	return lv
}

func atomicAdd(fr *Frame, cc *ssa.CallCommon, st *State, pos token.Pos) []Term {
	vc := fr.vc
	lv := fr.atomicLV(cc, pos)
	// another goroutine may have changed the cell since we last looked: the value read is the current one
	old := vc.loadL(lv, st)
	d := fr.val(cc.Args[1])
	w, signed, _ := intInfo(lv.T)
	var nv string
	if vc.bv {
		nv = fmt.Sprintf("(bvadd %s %s)", old.S, d.S)
	} else if signed {
		nv = fmt.Sprintf("(+ %s %s)", old.S, d.S)
	} else {
		nv = fmt.Sprintf("(mod (+ %s %s) %s)", old.S, d.S, pow2(w))
	}
	n := vc.fresh("atom")
	vc.define(n, vc.sortOf(lv.T), nv)
	vc.storeL(lv, n, st)
	return []Term{{n, vc.sortOf(lv.T), lv.T}}
}

func atomicLoad(fr *Frame, cc *ssa.CallCommon, st *State, pos token.Pos) []Term {
	vc := fr.vc
	lv := fr.atomicLV(cc, pos)
	t := vc.loadL(lv, st)
	n := vc.fresh("atomld")
	vc.define(n, t.Sort, t.S)
	vc.assumeIf(fr.curReach, vc.wf(lv.T, n))
	return []Term{{n, t.Sort, lv.T}}
}

func atomicStore(fr *Frame, cc *ssa.CallCommon, st *State, pos token.Pos) []Term {
	lv := fr.atomicLV(cc, pos)
	fr.vc.storeL(lv, fr.val(cc.Args[1]).S, st)
	return nil
}

func atomicCAS(fr *Frame, cc *ssa.CallCommon, st *State, pos token.Pos) []Term {
	vc := fr.vc
	lv := fr.atomicLV(cc, pos)
	cur := vc.loadL(lv, st)
	old := fr.val(cc.Args[1])
	nw := fr.val(cc.Args[2])
	ok := vc.fresh("casok")
	vc.define(ok, "Bool", fmt.Sprintf("(= %s %s)", cur.S, old.S))
	vc.storeL(lv, fmt.Sprintf("(ite %s %s %s)", ok, nw.S, cur.S), st)
	return []Term{{ok, "Bool", types.Typ[types.Bool]}}
}

// ---- guard / atomic-only discipline (C14, C17, C18) ----

func (fr *Frame) markAtomic(lv *LVal, pos token.Pos) {}

// checkGuard emits obligations for plain loads/stores of locations declared atomic_only or guarded_by.
func (fr *Frame) checkGuard(lv *LVal, write bool, pos token.Pos) {
	vc := fr.vc
	if vc.db == nil {
		return
	}
	key := guardKey(lv)
	if key == "" {
		return
	}
	gs, ok := vc.db.Globals[key]
	if !ok {
		return
	}
	switch gs.Kind {
	case "atomic_only":
		vc.oblige("atomic", fr.autoTags(), fr.curReach, "false", fmt.Sprintf("plain %s of atomic-only location %s", rw(write), key), pos, nil)
	}
}

func rw(w bool) string {
	if w {
		return "write"
	}
	return "read"
}

func guardKey(lv *LVal) string {
	if lv.Ref == "" && len(lv.Comp) > 2 && lv.Comp[:2] == "G!" {
		return lv.Comp[2:]
	}
	if len(lv.Path) > 0 {
		last := lv.Path[len(lv.Path)-1]
		if last.field >= 0 {
			if n, ok := last.structT.(*types.Named); ok && n.Obj().Pkg() != nil {
				return shortPkg(n.Obj().Pkg().Path()) + "." + n.Obj().Name() + "." + fieldName(last.structT, last.field)
			}
		}
	}
	return ""
}

// ---- maps and channels: ghost models ----

func (vc *VC) mapsComp() string {
	vc.comp("$maps", "Int")
	return "$maps"
}

func (fr *Frame) execMakeMap(ins *ssa.MakeMap, st *State) {
	fr.vc.unsupportedf("make(map) at %s", fr.vc.posOf(ins.Pos()))
	fr.bindFresh(ins)
}
func (fr *Frame) execMakeChan(ins *ssa.MakeChan, st *State) {
	fr.vc.unsupportedf("make(chan) at %s", fr.vc.posOf(ins.Pos()))
	fr.bindFresh(ins)
}
func (fr *Frame) execLookup(ins *ssa.Lookup, st *State) {
	vc := fr.vc
	if isString(ins.X.Type()) {
		x := fr.val(ins.X)
		idx := vc.toIndex(fr.val(ins.Index))
		vc.oblige("bounds", fr.autoTags(), fr.curReach, vc.inBounds(idx, vc.fromInt(fmt.Sprintf("(str_len %s)", x.S))), "string index in range", ins.Pos(), nil)
		fr.bind(ins, fmt.Sprintf("(str_at %s %s)", x.S, idx))
		return
	}
	vc.unsupportedf("map lookup at %s", vc.posOf(ins.Pos()))
	if ins.CommaOk {
		mt := ins.X.Type().Underlying().(*types.Map)
		v := vc.freshVal("mapv", mt.Elem(), fr.curReach)
		ok := vc.fresh("mapok")
		vc.declare(ok, "Bool")
		fr.tupleParts[ins] = []Term{v, {ok, "Bool", types.Typ[types.Bool]}}
		fr.vals[ins] = Term{"tuple", "tuple", ins.Type()}
		return
	}
	fr.bindFresh(ins)
}
func (fr *Frame) execMapUpdate(ins *ssa.MapUpdate, st *State) {
	fr.vc.unsupportedf("map update at %s", fr.vc.posOf(ins.Pos()))
}
func (fr *Frame) execMapDelete(ins *ssa.Call, st *State) {
	fr.vc.unsupportedf("map delete at %s", fr.vc.posOf(ins.Pos()))
}
func (fr *Frame) execSend(ins *ssa.Send, st *State) {
	fr.vc.unsupportedf("channel send at %s", fr.vc.posOf(ins.Pos()))
}
// ---- channels as ghost streams ----
// A channel handle c carries chlen(c) elements in total (then it is closed); $chpos[c] is the number
// already received; element i is chelem_<sort>(c, i). Blocking and scheduling are not modelled:
// a non-nil channel is always either ready with its next element or closed.

func (vc *VC) chposComp() string {
	vc.comp("$chpos", "(Array Int Int)")
	return "$chpos"
}

func (vc *VC) chelemFn(elem types.Type) string {
	name := "chelem_" + typeKey(elem)
	if !vc.declared[name] {
		vc.declared[name] = true
		vc.decls = append(vc.decls, fmt.Sprintf("(declare-fun %s (Int Int) %s)", name, vc.sortOf(elem)))
	}
	if !vc.declared["chlen"] {
		vc.declared["chlen"] = true
		vc.decls = append(vc.decls, "(declare-fun chlen (Int) Int)")
	}
	return name
}

// recvTerms returns (has, value) for receiving from channel c in state st (without updating it).
func (fr *Frame) recvTerms(c Term, elem types.Type, st *State) (string, string) {
	vc := fr.vc
	fn := vc.chelemFn(elem)
	pos := fmt.Sprintf("(select %s %s)", vc.get(st, vc.chposComp()), c.S)
	has := fmt.Sprintf("(< %s (chlen %s))", pos, c.S)
	val := fmt.Sprintf("(ite %s (%s %s %s) %s)", has, fn, c.S, pos, vc.zero(elem).S)
	return has, val
}

func (fr *Frame) execRecv(ins *ssa.UnOp, st *State) {
	vc := fr.vc
	c := fr.val(ins.X)
	ct := ins.X.Type().Underlying().(*types.Chan)
	vc.oblige("chan", fr.autoTags(), fr.curReach, fmt.Sprintf("(not (= %s 0))", c.S), "receive from a nil channel blocks forever", ins.Pos(), nil)
	has, val := fr.recvTerms(c, ct.Elem(), st)
	hn := vc.fresh("recvok")
	vc.define(hn, "Bool", has)
	vn := vc.fresh("recv")
	vc.define(vn, vc.sortOf(ct.Elem()), val)
	vc.assumeIf(fr.curReach, vc.wf(ct.Elem(), vn))
	fr.instantiateChanFacts(c, fmt.Sprintf("(select %s %s)", vc.get(st, vc.chposComp()), c.S), hn)
	comp := vc.chposComp()
	cur := vc.get(st, comp)
	vc.set(st, comp, fmt.Sprintf("(store %s %s (+ (select %s %s) (ite %s 1 0)))", cur, c.S, cur, c.S, hn))
	if ins.CommaOk {
		fr.tupleParts[ins] = []Term{{vn, vc.sortOf(ct.Elem()), ct.Elem()}, {hn, "Bool", types.Typ[types.Bool]}}
		fr.vals[ins] = Term{"tuple", "tuple", ins.Type()}
		return
	}
	fr.vals[ins] = Term{vn, vc.sortOf(ct.Elem()), ins.Type()}
}

func (fr *Frame) execSelect(ins *ssa.Select, st *State) {
	vc := fr.vc
	for _, s := range ins.States {
		if s.Dir != types.RecvOnly {
			vc.unsupportedf("select with a send case at %s", vc.posOf(ins.Pos()))
		}
	}
	idx := vc.fresh("selidx")
	vc.declare(idx, vc.isort())
	comp := vc.chposComp()
	cur := vc.get(st, comp)
	var anyReady []string
	var choice []string
	newPos := cur
	okT := "false"
	var vals []Term
	for i, s := range ins.States {
		c := fr.val(s.Chan)
		ct := s.Chan.Type().Underlying().(*types.Chan)
		nonnil := fmt.Sprintf("(not (= %s 0))", c.S)
		anyReady = append(anyReady, nonnil)
		chosen := fmt.Sprintf("(= %s %s)", idx, vc.ilit(int64(i)))
		choice = append(choice, and(chosen, nonnil))
		has, val := fr.recvTerms(c, ct.Elem(), st)
		hn := vc.fresh("selhas")
		vc.define(hn, "Bool", has)
		vn := vc.fresh("selval")
		vc.define(vn, vc.sortOf(ct.Elem()), val)
		vc.assumeIf(and(fr.curReach, chosen), vc.wf(ct.Elem(), vn))
		fr.instantiateChanFacts(c, fmt.Sprintf("(select %s %s)", cur, c.S), and(chosen, hn))
		newPos = fmt.Sprintf("(ite %s (store %s %s (+ (select %s %s) (ite %s 1 0))) %s)", chosen, cur, c.S, cur, c.S, hn, newPos)
		okT = fmt.Sprintf("(ite %s %s %s)", chosen, hn, okT)
		vals = append(vals, Term{vn, vc.sortOf(ct.Elem()), ct.Elem()})
	}
	if ins.Blocking {
		vc.oblige("chan", fr.autoTags(), fr.curReach, or(anyReady...), "blocking select has at least one non-nil channel (otherwise it blocks forever)", ins.Pos(), nil)
		vc.assumeIf(fr.curReach, or(choice...))
	} else {
		choice = append(choice, fmt.Sprintf("(= %s %s)", idx, vc.ilit(-1)))
		vc.assumeIf(fr.curReach, or(choice...))
	}
	vc.set(st, comp, newPos)
	okn := vc.fresh("selok")
	vc.define(okn, "Bool", okT)
	parts := []Term{{idx, vc.isort(), types.Typ[types.Int]}, {okn, "Bool", types.Typ[types.Bool]}}
	parts = append(parts, vals...)
	fr.tupleParts[ins] = parts
	fr.vals[ins] = Term{"tuple", "tuple", ins.Type()}
}
func (fr *Frame) execClose(ins *ssa.Call, st *State) {
	fr.vc.unsupportedf("close at %s", fr.vc.posOf(ins.Pos()))
}
func (fr *Frame) execRange(ins *ssa.Range, st *State) {
	fr.vc.unsupportedf("range over map/string at %s", fr.vc.posOf(ins.Pos()))
	fr.vals[ins] = Term{"0", "Int", ins.Type()}
}
func (fr *Frame) execNext(ins *ssa.Next, st *State) {
	fr.vc.unsupportedf("range-next at %s", fr.vc.posOf(ins.Pos()))
	fr.vals[ins] = Term{"tuple", "tuple", ins.Type()}
	var parts []Term
	tup := ins.Type().(*types.Tuple)
	for i := 0; i < tup.Len(); i++ {
		parts = append(parts, fr.vc.freshVal("next", tup.At(i).Type(), fr.curReach))
	}
	fr.tupleParts[ins] = parts
}
