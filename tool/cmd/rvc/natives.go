package main

import (
	"fmt"
	"strings"
	"go/token"
	"go/types"

	"golang.org/x/tools/go/ssa"
)

// nativeCall: a trusted stdlib contract that needs lvalue access and is therefore built in.
type nativeCall struct {
	exec     func(fr *Frame, cc *ssa.CallCommon, st *State, pos token.Pos) []Term
	modifies func(fr *Frame, cc *ssa.CallCommon) []string
	doc      string
}

var nativeCalls = map[string]*nativeCall{}

func init() {
	for _, ty := range []string{"Uint64", "Uint32", "Int64", "Int32"} {
		ty := ty
		nativeCalls["sync/atomic.Add"+ty] = &nativeCall{exec: atomicAdd, modifies: atomicMods, doc: "sequentially consistent read-modify-write"}
		nativeCalls["sync/atomic.Load"+ty] = &nativeCall{exec: atomicLoad, modifies: func(*Frame, *ssa.CallCommon) []string { return nil }, doc: "atomic load"}
		nativeCalls["sync/atomic.Store"+ty] = &nativeCall{exec: atomicStore, modifies: atomicMods, doc: "atomic store"}
		nativeCalls["sync/atomic.CompareAndSwap"+ty] = &nativeCall{exec: atomicCAS, modifies: atomicMods, doc: "atomic compare-and-swap"}
	}
}

func atomicMods(fr *Frame, cc *ssa.CallCommon) []string {
	return fr.compsOfAddr(cc.Args[0])
}

func (fr *Frame) atomicLV(cc *ssa.CallCommon, pos token.Pos) *LVal {
	lv := fr.lvalOf(cc.Args[0])
	if _, isL := fr.lvals[cc.Args[0]]; !isL && lv.Ref != "" {
		fr.nilCheck(lv.Ref, "atomic operand", pos)
	}
	fr.vc.callees["sync/atomic (sequentially consistent RMW, trusted)"] = true
	fr.markAtomic(lv, pos)
	return lv
}

func atomicAdd(fr *Frame, cc *ssa.CallCommon, st *State, pos token.Pos) []Term {
	vc := fr.vc
	lv := fr.atomicLV(cc, pos)
	// another goroutine may have changed the cell since we last looked: the value read is the current one
	old := vc.loadL(lv, st)
	vc.assumeIf(fr.curReach, vc.wf(lv.T, old.S)) // memory holds well-typed values
	d := fr.val(cc.Args[1])
	w, signed, _ := intInfo(lv.T)
	var nv string
	if vc.bv {
		nv = fmt.Sprintf("(bvadd %s %s)", old.S, d.S)
	} else if signed {
		nv = fmt.Sprintf("(+ %s %s)", old.S, d.S)
	} else {
		nv = fmt.Sprintf("(mod (+ %s %s) %s)", old.S, d.S, pow2(w))
	}
	n := vc.fresh("atom")
	vc.define(n, vc.sortOf(lv.T), nv)
	vc.storeL(lv, n, st)
	return []Term{{n, vc.sortOf(lv.T), lv.T}}
}

func atomicLoad(fr *Frame, cc *ssa.CallCommon, st *State, pos token.Pos) []Term {
	vc := fr.vc
	lv := fr.atomicLV(cc, pos)
	t := vc.loadL(lv, st)
	n := vc.fresh("atomld")
	vc.define(n, t.Sort, t.S)
	vc.assumeIf(fr.curReach, vc.wf(lv.T, n))
	return []Term{{n, t.Sort, lv.T}}
}

func atomicStore(fr *Frame, cc *ssa.CallCommon, st *State, pos token.Pos) []Term {
	lv := fr.atomicLV(cc, pos)
	fr.vc.storeL(lv, fr.val(cc.Args[1]).S, st)
	return nil
}

func atomicCAS(fr *Frame, cc *ssa.CallCommon, st *State, pos token.Pos) []Term {
	vc := fr.vc
	lv := fr.atomicLV(cc, pos)
	cur := vc.loadL(lv, st)
	vc.assumeIf(fr.curReach, vc.wf(lv.T, cur.S))
	old := fr.val(cc.Args[1])
	nw := fr.val(cc.Args[2])
	ok := vc.fresh("casok")
	vc.define(ok, "Bool", fmt.Sprintf("(= %s %s)", cur.S, old.S))
	vc.storeL(lv, fmt.Sprintf("(ite %s %s %s)", ok, nw.S, cur.S), st)
	return []Term{{ok, "Bool", types.Typ[types.Bool]}}
}

// ---- guard / atomic-only discipline (C14, C17, C18) ----

func (fr *Frame) markAtomic(lv *LVal, pos token.Pos) {}

// checkGuard emits obligations for plain loads/stores of locations declared atomic_only or guarded_by.
func (fr *Frame) checkGuard(lv *LVal, write bool, pos token.Pos) {
	vc := fr.vc
	if vc.db == nil {
		return
	}
	key := guardKey(lv)
	if key == "" {
		return
	}
	gs, ok := vc.db.Globals[key]
	if !ok {
		return
	}
	switch gs.Kind {
	case "atomic_only":
		vc.oblige("atomic", fr.autoTags(), fr.curReach, "false", fmt.Sprintf("plain %s of atomic-only location %s", rw(write), key), pos, nil)
	}
}

// checkElemsAtomic: a plain load/store of an element of a package-level slice or array declared
// `global X elems_atomic` (provenance: IndexAddr / FieldAddr chain ending in a load of that global).
func (fr *Frame) checkElemsAtomic(addr ssa.Value, write bool, pos token.Pos) {
	vc := fr.vc
	g := elemsOfGlobal(addr, false)
	if g == nil || vc.db == nil {
		return
	}
	key := shortPkg(g.Pkg.Pkg.Path()) + "." + g.Name()
	if gs, ok := vc.db.Globals[key]; ok && gs.Kind == "elems_atomic" {
		vc.oblige("atomic", fr.autoTags(), fr.curReach, "false", fmt.Sprintf("plain %s of an element of atomic-only table %s", rw(write), key), pos, nil)
	}
}

// elemsOfGlobal follows IndexAddr/FieldAddr back to a package-level variable (through the load of a
// slice header); seenIndex: at least one indexing step was taken.
func elemsOfGlobal(v ssa.Value, seenIndex bool) *ssa.Global {
	switch v := v.(type) {
	case *ssa.IndexAddr:
		return elemsOfGlobal(v.X, true)
	case *ssa.FieldAddr:
		return elemsOfGlobal(v.X, seenIndex)
	case *ssa.UnOp:
		if v.Op == token.MUL && seenIndex {
			if g, ok := v.X.(*ssa.Global); ok {
				return g
			}
		}
	case *ssa.Global:
		if seenIndex {
			return v
		}
	}
	return nil
}

func rw(w bool) string {
	if w {
		return "write"
	}
	return "read"
}

func guardKey(lv *LVal) string {
	if lv.Ref == "" && len(lv.Comp) > 2 && lv.Comp[:2] == "G!" {
		return lv.Comp[2:]
	}
	if len(lv.Path) > 0 {
		last := lv.Path[len(lv.Path)-1]
		if last.field >= 0 {
			if n, ok := last.structT.(*types.Named); ok && n.Obj().Pkg() != nil {
				return shortPkg(n.Obj().Pkg().Path()) + "." + n.Obj().Name() + "." + fieldName(last.structT, last.field)
			}
		}
	}
	return ""
}

// ---- maps and channels: ghost models ----

func (vc *VC) mapsComp() string {
	vc.comp("$maps", "Int")
	return "$maps"
}

// ---- maps ----
// A map value is a handle m; $map!K!V[m] is its content, an array from keys to an option of values.

func (vc *VC) optSort(v types.Type) string {
	vs := vc.sortOf(v)
	name := "Opt_" + typeKey(v)
	if !vc.declared[name] {
		vc.declared[name] = true
		vc.decls = append(vc.decls, fmt.Sprintf("(declare-datatypes ((%s 0)) (((none_%s) (some_%s (val_%s %s)))))", name, typeKey(v), typeKey(v), typeKey(v), vs))
	}
	return name
}

func (vc *VC) mapComp(mt *types.Map) string {
	name := "$map!" + typeKey(mt.Key()) + "!" + typeKey(mt.Elem())
	vc.comp(name, fmt.Sprintf("(Array Int (Array %s %s))", vc.sortOf(mt.Key()), vc.optSort(mt.Elem())))
	return name
}

// mapLenComp: ghost cardinality of every map object.
func (vc *VC) mapLenComp() string {
	vc.comp("$maplen", "(Array Int Int)")
	return "$maplen"
}

func (vc *VC) emptyMap(mt *types.Map) string {
	return fmt.Sprintf("((as const (Array %s %s)) none_%s)", vc.sortOf(mt.Key()), vc.optSort(mt.Elem()), typeKey(mt.Elem()))
}

func (fr *Frame) mapOf(v ssa.Value, st *State) (string, *types.Map) {
	mt := v.Type().Underlying().(*types.Map)
	comp := fr.vc.mapComp(mt)
	return fmt.Sprintf("(select %s %s)", fr.vc.get(st, comp), fr.val(v).S), mt
}

func (fr *Frame) execMakeMap(ins *ssa.MakeMap, st *State) {
	vc := fr.vc
	mt := ins.Type().Underlying().(*types.Map)
	comp := vc.mapComp(mt)
	r := vc.newRef(st, fr.curReach)
	empty := vc.emptyMap(mt)
	vc.set(st, comp, fmt.Sprintf("(store %s %s %s)", vc.get(st, comp), r, empty))
	lc := vc.mapLenComp()
	vc.set(st, lc, fmt.Sprintf("(store %s %s 0)", vc.get(st, lc), r))
	fr.vals[ins] = Term{r, "Int", ins.Type()}
}
func (fr *Frame) execMakeChan(ins *ssa.MakeChan, st *State) {
	vc := fr.vc
	r := vc.newRef(st, fr.curReach)
	// a fresh channel: nothing received, nothing sent yet
	comp := vc.chposComp()
	vc.set(st, comp, fmt.Sprintf("(store %s %s 0)", vc.get(st, comp), r))
	sc := vc.chsentComp()
	vc.set(st, sc, fmt.Sprintf("(store %s %s 0)", vc.get(st, sc), r))
	vc.comp("$chclosed", "(Array Int Bool)")
	vc.set(st, "$chclosed", fmt.Sprintf("(store %s %s false)", vc.get(st, "$chclosed"), r))
	fr.vals[ins] = Term{r, "Int", ins.Type()}
}
func (fr *Frame) execLookup(ins *ssa.Lookup, st *State) {
	vc := fr.vc
	if isString(ins.X.Type()) {
		x := fr.val(ins.X)
		idx := vc.toIndex(fr.val(ins.Index))
		vc.oblige("bounds", fr.autoTags(), fr.curReach, vc.inBounds(idx, vc.fromInt(fmt.Sprintf("(str_len %s)", x.S))), "string index in range", ins.Pos(), nil)
		fr.bind(ins, fmt.Sprintf("(str_at %s %s)", x.S, idx))
		return
	}
	m, mt := fr.mapOf(ins.X, st)
	fr.checkMapGuard(ins.X, false, ins.Pos(), st)
	k := fr.val(ins.Index)
	tk := typeKey(mt.Elem())
	ent := vc.fresh("mapent")
	vc.define(ent, vc.optSort(mt.Elem()), fmt.Sprintf("(select %s %s)", m, k.S))
	ok := fmt.Sprintf("((_ is some_%s) %s)", tk, ent)
	v := fmt.Sprintf("(ite %s (val_%s %s) %s)", ok, tk, ent, vc.zero(mt.Elem()).S)
	vn := vc.fresh("mapv")
	vc.define(vn, vc.sortOf(mt.Elem()), v)
	vc.assumeIf(fr.curReach, vc.wf(mt.Elem(), vn))
	if ins.CommaOk {
		okn := vc.fresh("mapok")
		vc.define(okn, "Bool", ok)
		fr.tupleParts[ins] = []Term{{vn, vc.sortOf(mt.Elem()), mt.Elem()}, {okn, "Bool", types.Typ[types.Bool]}}
		fr.vals[ins] = Term{"tuple", "tuple", ins.Type()}
		return
	}
	fr.vals[ins] = Term{vn, vc.sortOf(mt.Elem()), ins.Type()}
}
func (fr *Frame) execMapUpdate(ins *ssa.MapUpdate, st *State) {
	vc := fr.vc
	m, mt := fr.mapOf(ins.Map, st)
	fr.nilCheck(fr.val(ins.Map).S, "assignment to entry in nil map", ins.Pos())
	fr.checkMapGuard(ins.Map, true, ins.Pos(), st)
	comp := vc.mapComp(mt)
	k := fr.val(ins.Key)
	v := fr.val(ins.Value)
	fr.atMapUpdateAsserts(ins, k, v, st)
	lc := vc.mapLenComp()
	mh := fr.val(ins.Map).S
	vc.set(st, lc, fmt.Sprintf("(store %s %s (+ (select %s %s) (ite ((_ is some_%s) (select %s %s)) 0 1)))", vc.get(st, lc), mh, vc.get(st, lc), mh, typeKey(mt.Elem()), m, k.S))
	vc.set(st, comp, fmt.Sprintf("(store %s %s (store %s %s (some_%s %s)))", vc.get(st, comp), fr.val(ins.Map).S, m, k.S, typeKey(mt.Elem()), v.S))
}
func (fr *Frame) execMapDelete(ins *ssa.Call, st *State) {
	vc := fr.vc
	args := ins.Call.Args
	m, mt := fr.mapOf(args[0], st)
	fr.checkMapGuard(args[0], true, ins.Pos(), st)
	comp := vc.mapComp(mt)
	k := fr.val(args[1])
	lc := vc.mapLenComp()
	mh := fr.val(args[0]).S
	vc.set(st, lc, fmt.Sprintf("(store %s %s (- (select %s %s) (ite ((_ is some_%s) (select %s %s)) 1 0)))", vc.get(st, lc), mh, vc.get(st, lc), mh, typeKey(mt.Elem()), m, k.S))
	vc.set(st, comp, fmt.Sprintf("(store %s %s (store %s %s none_%s))", vc.get(st, comp), fr.val(args[0]).S, m, k.S, typeKey(mt.Elem())))
	fr.vals[ins] = Term{"unit", "Unit", ins.Type()}
}

// checkMapGuard: a map loaded from a struct field declared `guarded_by` needs the lock: the write
// lock for updates and deletes, the read or the write lock for lookups (C14, C17).
func (fr *Frame) checkMapGuard(m ssa.Value, write bool, pos token.Pos, st *State) {
	vc := fr.vc
	u, ok := m.(*ssa.UnOp)
	if !ok {
		return
	}
	fa, ok := u.X.(*ssa.FieldAddr)
	if !ok {
		return
	}
	pt, ok := fa.X.Type().Underlying().(*types.Pointer)
	if !ok {
		return
	}
	n, ok := pt.Elem().(*types.Named)
	if !ok || n.Obj().Pkg() == nil {
		return
	}
	key := shortPkg(n.Obj().Pkg().Path()) + "." + n.Obj().Name() + "." + fieldName(pt.Elem(), fa.Field)
	gs, ok := vc.db.Globals[key]
	if !ok || !strings.HasPrefix(gs.Kind, "guarded_by:") {
		return
	}
	lockField := strings.TrimPrefix(gs.Kind, "guarded_by:")
	stt := pt.Elem().Underlying().(*types.Struct)
	for i := 0; i < stt.NumFields(); i++ {
		if stt.Field(i).Name() == lockField {
			base := fr.lvalOf(fa.X)
			lv := &LVal{Comp: base.Comp, Ref: base.Ref, Path: append(append([]pathElem{}, base.Path...), pathElem{field: i, structT: pt.Elem()}), T: stt.Field(i).Type()}
			lock := vc.loadL(lv, st).S
			vc.comp("wheld", "(Array Int Bool)")
			vc.comp("rheld", "(Array Int Bool)")
			w := fmt.Sprintf("(select %s %s)", vc.get(st, "wheld"), lock)
			r := fmt.Sprintf("(select %s %s)", vc.get(st, "rheld"), lock)
			goal := w
			what := "write access to " + key + " holds the write lock " + lockField
			if !write {
				goal = fmt.Sprintf("(or %s %s)", w, r)
				what = "read access to " + key + " holds " + lockField
			}
			vc.oblige("guard", fr.autoTags(), fr.curReach, goal, what, pos, nil)
			return
		}
	}
	vc.unsupportedf("guarded_by: no field %s in %s", lockField, key)
}

func (vc *VC) chsentComp() string {
	vc.comp("$chsent", "(Array Int Int)")
	return "$chsent"
}

// Send: the value becomes element number $chsent[c] of the channel; close fixes the length.
func (fr *Frame) execSend(ins *ssa.Send, st *State) {
	vc := fr.vc
	c := fr.val(ins.Chan)
	ct := ins.Chan.Type().Underlying().(*types.Chan)
	v := fr.val(ins.X)
	vc.oblige("chan", fr.autoTags(), fr.curReach, fmt.Sprintf("(not (= %s 0))", c.S), "send on a nil channel blocks forever", ins.Pos(), nil)
	vc.comp("$chclosed", "(Array Int Bool)")
	// a `never_closed` channel is not closed (no close of that field in the package)
	fr.neverClosedFacts(c, fr.curReach, fmt.Sprintf("(not (select %s %s))", vc.get(st, "$chclosed"), c.S), st)
	vc.oblige("chan", fr.autoTags(), fr.curReach, fmt.Sprintf("(not (select %s %s))", vc.get(st, "$chclosed"), c.S), "send on a closed channel panics", ins.Pos(), nil)
	fr.atSendAsserts(ins, v, st)
	sc := vc.chsentComp()
	cnt := fmt.Sprintf("(select %s %s)", vc.get(st, sc), c.S)
	fn := vc.chelemFn(ct.Elem())
	vc.assumeIf(fr.curReach, fmt.Sprintf("(>= %s 0)", cnt))
	vc.assumeIf(fr.curReach, fmt.Sprintf("(= (%s %s %s) %s)", fn, c.S, cnt, v.S))
	vc.set(st, sc, fmt.Sprintf("(store %s %s (+ %s 1))", vc.get(st, sc), c.S, cnt))
}

// ---- channels as ghost streams ----
// A channel handle c carries chlen(c) elements in total (then it is closed); $chpos[c] is the number
// already received; element i is chelem_<sort>(c, i). Blocking and scheduling are not modelled:
// a non-nil channel is always either ready with its next element or closed.

func (vc *VC) chposComp() string {
	vc.comp("$chpos", "(Array Int Int)")
	return "$chpos"
}

func (vc *VC) chelemFn(elem types.Type) string {
	name := "chelem_" + typeKey(elem)
	if !vc.declared[name] {
		vc.declared[name] = true
		vc.decls = append(vc.decls, fmt.Sprintf("(declare-fun %s (Int Int) %s)", name, vc.sortOf(elem)))
	}
	if !vc.declared["chlen"] {
		vc.declared["chlen"] = true
		vc.decls = append(vc.decls, "(declare-fun chlen (Int) Int)")
	}
	return name
}

// recvTerms returns (has, value) for receiving from channel c in state st (without updating it).
func (fr *Frame) recvTerms(c Term, elem types.Type, st *State) (string, string) {
	vc := fr.vc
	fn := vc.chelemFn(elem)
	pos := fmt.Sprintf("(select %s %s)", vc.get(st, vc.chposComp()), c.S)
	has := fmt.Sprintf("(< %s (chlen %s))", pos, c.S)
	val := fmt.Sprintf("(ite %s (%s %s %s) %s)", has, fn, c.S, pos, vc.zero(elem).S)
	return has, val
}

// neverClosedFacts: `never_closed e` — e is a channel no statement of the package closes (checked
// syntactically below); a receive on it that returns has therefore received a value. Partial
// correctness: the executions in which the receive blocks for ever perform no further step.
func (fr *Frame) neverClosedFacts(c Term, guard, has string, st *State) {
	if fr.spec == nil || !fr.isTop {
		return
	}
	vc := fr.vc
	for _, nc := range fr.spec.NeverClosed {
		ctx := fr.specCtx(st, fr.entry, fr.curBlock, fr.curIdx)
		t, err := ctx.eval(nc.E)
		if err != nil {
			vc.unsupportedf("never_closed %s: %v", nc.Text, err)
			continue
		}
		if !vc.ncChecked[nc] {
			vc.ncChecked[nc] = true
			sel := nc.Text
			if i := strings.LastIndex(sel, "."); i >= 0 {
				sel = sel[i+1:]
			}
			if pos, found := closesField(fr.fn, strings.TrimSpace(sel)); found {
				vc.unsupportedf("never_closed %s: the package closes a field of that name at %s", nc.Text, vc.posOf(pos))
			}
			vc.note("channel %s is never closed: no close of a field %s in package %s (syntactic check); a receive on it returns only with a value and a send on it does not panic", nc.Text, sel, fr.fn.Pkg.Pkg.Name())
		}
		vc.assumeIf(guard, fmt.Sprintf("(=> (= %s %s) %s)", c.S, t.S, has))
	}
}

// closesField: some function of fn's package calls close on a value loaded from a field named sel.
func closesField(fn *ssa.Function, sel string) (token.Pos, bool) {
	if fn.Pkg == nil {
		return token.NoPos, false
	}
	var fns []*ssa.Function
	var add func(f *ssa.Function)
	add = func(f *ssa.Function) {
		if f == nil {
			return
		}
		fns = append(fns, f)
		for _, a := range f.AnonFuncs {
			add(a)
		}
	}
	for _, m := range fn.Pkg.Members {
		switch v := m.(type) {
		case *ssa.Function:
			add(v)
		case *ssa.Type:
			for _, t := range []types.Type{v.Type(), types.NewPointer(v.Type())} {
				ms := fn.Prog.MethodSets.MethodSet(t)
				for i := 0; i < ms.Len(); i++ {
					add(fn.Prog.MethodValue(ms.At(i)))
				}
			}
		}
	}
	for _, f := range fns {
		for _, b := range f.Blocks {
			for _, ins := range b.Instrs {
				ci, ok := ins.(ssa.CallInstruction)
				if !ok {
					continue
				}
				bi, ok := ci.Common().Value.(*ssa.Builtin)
				if !ok || bi.Name() != "close" {
					continue
				}
				if u, ok := ci.Common().Args[0].(*ssa.UnOp); ok {
					if fa, ok := u.X.(*ssa.FieldAddr); ok {
						if fieldName(fa.X.Type().Underlying().(*types.Pointer).Elem(), fa.Field) == sel {
							return ins.Pos(), true
						}
					}
				}
			}
		}
	}
	return token.NoPos, false
}

func (fr *Frame) execRecv(ins *ssa.UnOp, st *State) {
	vc := fr.vc
	c := fr.val(ins.X)
	ct := ins.X.Type().Underlying().(*types.Chan)
	vc.oblige("chan", fr.autoTags(), fr.curReach, fmt.Sprintf("(not (= %s 0))", c.S), "receive from a nil channel blocks forever", ins.Pos(), nil)
	has, val := fr.recvTerms(c, ct.Elem(), st)
	hn := vc.fresh("recvok")
	vc.define(hn, "Bool", has)
	vn := vc.fresh("recv")
	vc.define(vn, vc.sortOf(ct.Elem()), val)
	vc.assumeIf(fr.curReach, vc.wf(ct.Elem(), vn))
	fr.instantiateChanFacts(c, fmt.Sprintf("(select %s %s)", vc.get(st, vc.chposComp()), c.S), hn)
	fr.neverClosedFacts(c, fr.curReach, hn, st)
	comp := vc.chposComp()
	cur := vc.get(st, comp)
	vc.set(st, comp, fmt.Sprintf("(store %s %s (+ (select %s %s) (ite %s 1 0)))", cur, c.S, cur, c.S, hn))
	if ins.CommaOk {
		fr.tupleParts[ins] = []Term{{vn, vc.sortOf(ct.Elem()), ct.Elem()}, {hn, "Bool", types.Typ[types.Bool]}}
		fr.vals[ins] = Term{"tuple", "tuple", ins.Type()}
		return
	}
	fr.vals[ins] = Term{vn, vc.sortOf(ct.Elem()), ins.Type()}
}

func (fr *Frame) execSelect(ins *ssa.Select, st *State) {
	vc := fr.vc
	for _, s := range ins.States {
		if s.Dir != types.RecvOnly {
			vc.unsupportedf("select with a send case at %s", vc.posOf(ins.Pos()))
		}
	}
	idx := vc.fresh("selidx")
	vc.declare(idx, vc.isort())
	comp := vc.chposComp()
	cur := vc.get(st, comp)
	var anyReady []string
	var choice []string
	newPos := cur
	okT := "false"
	var vals []Term
	for i, s := range ins.States {
		c := fr.val(s.Chan)
		ct := s.Chan.Type().Underlying().(*types.Chan)
		nonnil := fmt.Sprintf("(not (= %s 0))", c.S)
		anyReady = append(anyReady, nonnil)
		chosen := fmt.Sprintf("(= %s %s)", idx, vc.ilit(int64(i)))
		choice = append(choice, and(chosen, nonnil))
		has, val := fr.recvTerms(c, ct.Elem(), st)
		hn := vc.fresh("selhas")
		vc.define(hn, "Bool", has)
		vn := vc.fresh("selval")
		vc.define(vn, vc.sortOf(ct.Elem()), val)
		vc.assumeIf(and(fr.curReach, chosen), vc.wf(ct.Elem(), vn))
		fr.instantiateChanFacts(c, fmt.Sprintf("(select %s %s)", cur, c.S), and(chosen, hn))
		fr.neverClosedFacts(c, and(fr.curReach, chosen, nonnil), hn, st)
		newPos = fmt.Sprintf("(ite %s (store %s %s (+ (select %s %s) (ite %s 1 0))) %s)", chosen, cur, c.S, cur, c.S, hn, newPos)
		okT = fmt.Sprintf("(ite %s %s %s)", chosen, hn, okT)
		vals = append(vals, Term{vn, vc.sortOf(ct.Elem()), ct.Elem()})
	}
	if ins.Blocking {
		vc.oblige("chan", fr.autoTags(), fr.curReach, or(anyReady...), "blocking select has at least one non-nil channel (otherwise it blocks forever)", ins.Pos(), nil)
		vc.assumeIf(fr.curReach, or(choice...))
	} else {
		choice = append(choice, fmt.Sprintf("(= %s %s)", idx, vc.ilit(-1)))
		vc.assumeIf(fr.curReach, or(choice...))
	}
	vc.set(st, comp, newPos)
	okn := vc.fresh("selok")
	vc.define(okn, "Bool", okT)
	parts := []Term{{idx, vc.isort(), types.Typ[types.Int]}, {okn, "Bool", types.Typ[types.Bool]}}
	parts = append(parts, vals...)
	fr.tupleParts[ins] = parts
	fr.vals[ins] = Term{"tuple", "tuple", ins.Type()}
}
func (fr *Frame) execClose(ins *ssa.Call, st *State) {
	fr.closeChan(ins.Call.Args[0], st, ins.Pos())
	fr.vals[ins] = Term{"unit", "Unit", ins.Type()}
}

func (fr *Frame) closeChan(arg ssa.Value, st *State, pos token.Pos) {
	vc := fr.vc
	c := fr.val(arg)
	ct := arg.Type().Underlying().(*types.Chan)
	vc.chelemFn(ct.Elem())
	vc.comp("$chclosed", "(Array Int Bool)")
	vc.oblige("chan", fr.autoTags(), fr.curReach, fmt.Sprintf("(and (not (= %s 0)) (not (select %s %s)))", c.S, vc.get(st, "$chclosed"), c.S), "close of a nil or already closed channel panics", pos, nil)
	vc.set(st, "$chclosed", fmt.Sprintf("(store %s %s true)", vc.get(st, "$chclosed"), c.S))
	vc.assumeIf(fr.curReach, fmt.Sprintf("(= (chlen %s) (select %s %s))", c.S, vc.get(st, vc.chsentComp()), c.S))
}
// ---- range over a map ----
// `range m` opens an iterator it; $mapiter!K[it] is the set of keys already visited. Each `next`
// either yields a key that is in the map now and has not been visited, or reports the end — and then
// every key in the map has been visited. No order is assumed. Insertions into the map during the
// iteration are outside the subset (deletions are fine).
func (vc *VC) mapIterComp(kt types.Type) string {
	name := "$mapiter!" + typeKey(kt)
	vc.comp(name, fmt.Sprintf("(Array Int (Array %s Bool))", vc.sortOf(kt)))
	return name
}

type mapIter struct {
	mapTerm string
	mapVal  ssa.Value
	mt      *types.Map
}

var mapIters = map[*Frame]map[ssa.Value]*mapIter{}
var mapIterByTerm = map[*VC]map[string]string{} // map type key -> iterator id (latest opened over a map of that type)

func (fr *Frame) execRange(ins *ssa.Range, st *State) {
	vc := fr.vc
	mt, ok := ins.X.Type().Underlying().(*types.Map)
	if !ok {
		vc.unsupportedf("range over %s at %s", ins.X.Type(), vc.posOf(ins.Pos()))
		fr.vals[ins] = Term{"0", "Int", ins.Type()}
		return
	}
	it := vc.newRef(st, fr.curReach)
	comp := vc.mapIterComp(mt.Key())
	vc.set(st, comp, fmt.Sprintf("(store %s %s ((as const (Array %s Bool)) false))", vc.get(st, comp), it, vc.sortOf(mt.Key())))
	fr.vals[ins] = Term{it, "Int", ins.Type()}
	if mapIters[fr] == nil {
		mapIters[fr] = map[ssa.Value]*mapIter{}
	}
	m := fr.val(ins.X)
	mapIters[fr][ins] = &mapIter{mapTerm: m.S, mapVal: ins.X, mt: mt}
	if mapIterByTerm[vc] == nil {
		mapIterByTerm[vc] = map[string]string{}
	}
	mapIterByTerm[vc][typeKey(mt)] = it
	if _, _, isInt := intInfo(mt.Elem()); isInt && !vc.bv {
		// msum(content, V): the sum of the values of the keys in V; empty set: 0
		content := fmt.Sprintf("(select %s %s)", vc.get(st, vc.mapComp(mt)), m.S)
		vc.assumeIf(fr.curReach, fmt.Sprintf("(= (%s %s ((as const (Array %s Bool)) false)) 0)", vc.msumFn(mt), content, vc.sortOf(mt.Key())))
	}
	fr.checkMapGuard(ins.X, false, ins.Pos(), st)
}

func (fr *Frame) execNext(ins *ssa.Next, st *State) {
	vc := fr.vc
	mi := mapIters[fr][ins.Iter]
	tup := ins.Type().(*types.Tuple)
	if mi == nil {
		vc.unsupportedf("range-next over a string at %s", vc.posOf(ins.Pos()))
		fr.vals[ins] = Term{"tuple", "tuple", ins.Type()}
		var parts []Term
		for i := 0; i < tup.Len(); i++ {
			parts = append(parts, vc.freshVal("next", tup.At(i).Type(), fr.curReach))
		}
		fr.tupleParts[ins] = parts
		return
	}
	mt := mi.mt
	it := fr.val(ins.Iter).S
	comp := vc.mapIterComp(mt.Key())
	content := fmt.Sprintf("(select %s %s)", vc.get(st, vc.mapComp(mt)), mi.mapTerm)
	visited := fmt.Sprintf("(select %s %s)", vc.get(st, comp), it)
	tk := typeKey(mt.Elem())
	okn := vc.fresh("nextok")
	vc.declare(okn, "Bool")
	k := vc.freshVal("nextkey", mt.Key(), fr.curReach)
	ks := vc.sortOf(mt.Key())
	vc.assumeIf(fr.curReach, fmt.Sprintf("(=> %s (and ((_ is some_%s) (select %s %s)) (not (select %s %s))))", okn, tk, content, k.S, visited, k.S))
	vc.assumeIf(fr.curReach, fmt.Sprintf("(=> (not %s) (forall ((q_k %s)) (! (=> ((_ is some_%s) (select %s q_k)) (select %s q_k)) :pattern ((select %s q_k)) :pattern ((select %s q_k)))))", okn, ks, tk, content, visited, content, visited))
	// a nil map has no entries
	vc.assumeIf(fr.curReach, fmt.Sprintf("(=> (= %s 0) (not %s))", mi.mapTerm, okn))
	v := vc.fresh("nextval")
	vc.define(v, vc.sortOf(mt.Elem()), fmt.Sprintf("(ite %s (val_%s (select %s %s)) %s)", okn, tk, content, k.S, vc.zero(mt.Elem()).S))
	vc.assumeIf(fr.curReach, vc.wf(mt.Elem(), v))
	if _, _, isInt := intInfo(mt.Elem()); isInt && !vc.bv {
		f := vc.msumFn(mt)
		vc.assumeIf(fr.curReach, fmt.Sprintf("(= (%s %s (ite %s (store %s %s true) %s)) (+ (%s %s %s) (ite %s (val_%s (select %s %s)) 0)))", f, content, okn, visited, k.S, visited, f, content, visited, okn, tk, content, k.S))
	}
	vc.set(st, comp, fmt.Sprintf("(store %s %s (ite %s (store %s %s true) %s))", vc.get(st, comp), it, okn, visited, k.S, visited))
	fr.tupleParts[ins] = []Term{{okn, "Bool", types.Typ[types.Bool]}, {k.S, k.Sort, mt.Key()}, {v, vc.sortOf(mt.Elem()), mt.Elem()}}
	fr.vals[ins] = Term{"tuple", "tuple", ins.Type()}
}

// ---- readers as ghost input streams ----
// A reader handle r delivers the fixed byte sequence rd_data(r) of length rd_len(r) (then EOF or a
// broken connection); $rdpos[r] is the cursor. No packet structure exists in the model, so anything
// proved holds for every segmentation of the stream.

func (vc *VC) rdposComp() string {
	vc.comp("$rdpos", "(Array Int Int)")
	if _, inSpec := vc.db.Sigs["rd_data"]; !vc.declared["rd_data"] && !inSpec {
		vc.declared["rd_data"] = true
		vc.decls = append(vc.decls, "(declare-fun rd_data (Int) (Array Int Int))", "(declare-fun rd_len (Int) Int)")
	}
	return "$rdpos"
}

func init() {
	nativeCalls["io.ReadAtLeast"] = &nativeCall{exec: ioReadAtLeast, modifies: func(fr *Frame, cc *ssa.CallCommon) []string {
		return []string{fr.vc.rdposComp(), fr.vc.arrComp(types.Typ[types.Uint8])}
	}, doc: "io.ReadAtLeast(r, buf, min): with min == len(buf) a nil error means exactly len(buf) bytes of the stream"}
	nativeCalls["io.ReadFull"] = nativeCalls["io.ReadAtLeast"]
	for _, n := range []string{"Uint16", "Uint32", "Uint64"} {
		n := n
		nativeCalls["encoding/binary.(bigEndian)."+n] = &nativeCall{exec: func(fr *Frame, cc *ssa.CallCommon, st *State, pos token.Pos) []Term {
			return beRead(fr, cc, st, pos, n)
		}, modifies: func(*Frame, *ssa.CallCommon) []string { return nil }, doc: "big-endian decode"}
		nativeCalls["encoding/binary.(bigEndian).Put"+n] = &nativeCall{exec: func(fr *Frame, cc *ssa.CallCommon, st *State, pos token.Pos) []Term {
			return bePut(fr, cc, st, pos, n)
		}, modifies: func(fr *Frame, cc *ssa.CallCommon) []string { return []string{fr.vc.arrComp(types.Typ[types.Uint8])} }, doc: "big-endian encode"}
	}
	nativeCalls["sync.(*Pool).Get"] = &nativeCall{exec: poolGet, modifies: func(fr *Frame, cc *ssa.CallCommon) []string {
		return []string{"$alloc", fr.vc.ownedComp(), fr.vc.arrComp(types.Typ[types.Uint8])}
	}, doc: "sync.Pool.Get returns an object owned exclusively by the caller"}
	nativeCalls["sync.(*Pool).Put"] = &nativeCall{exec: poolPut, modifies: func(fr *Frame, cc *ssa.CallCommon) []string { return []string{fr.vc.ownedComp()} }, doc: "sync.Pool.Put"}
}

// rdcanon / wrcanon map an io.Reader / io.Writer interface value to the identity of the underlying
// stream: a *bufio.ReadWriter reads through its embedded Reader and writes through its embedded Writer.
func (vc *VC) canon(kind, h string) string {
	if !vc.declared["rdcanon"] {
		vc.declared["rdcanon"] = true
		vc.decls = append(vc.decls, "(declare-fun rdcanon (Int) Int)", "(declare-fun wrcanon (Int) Int)")
	}
	// a boxed *bufio.Reader / *bufio.Writer is its own stream identity
	if kind == "rd" && strings.HasPrefix(h, "(box_Pbufio_Reader ") {
		return h
	}
	if kind == "wr" && strings.HasPrefix(h, "(box_Pbufio_Writer ") {
		return h
	}
	if vc.isBoxedStream(kind, h) {
		return h
	}
	return fmt.Sprintf("(%scanon %s)", kind, h)
}

func ioReadAtLeast(fr *Frame, cc *ssa.CallCommon, st *State, pos token.Pos) []Term {
	vc := fr.vc
	vc.callees["io.ReadAtLeast / io.ReadFull (trusted stream contract)"] = true
	r := fr.val(cc.Args[0])
	r.S = vc.canon("rd", r.S)
	buf := fr.val(cc.Args[1])
	blen := fmt.Sprintf("(sl_len %s)", buf.S)
	min := blen
	if len(cc.Args) > 2 {
		min = fr.val(cc.Args[2]).S
	}
	vc.oblige("readatleast", fr.autoTags(), fr.curReach, fmt.Sprintf("(= %s %s)", min, blen), "io.ReadAtLeast is called with min == len(buf) (the read is independent of how the stream is split)", pos, nil)
	rp := vc.rdposComp()
	cur := fmt.Sprintf("(select %s %s)", vc.get(st, rp), r.S)
	p0 := vc.fresh("rdpos")
	vc.define(p0, "Int", cur)
	avail := fmt.Sprintf("(- (rd_len %s) %s)", r.S, p0)
	ok := vc.fresh("rdok")
	vc.define(ok, "Bool", fmt.Sprintf("(>= %s %s)", avail, min))
	n := vc.fresh("rdn")
	vc.declare(n, "Int")
	errv := vc.fresh("rderr")
	vc.declare(errv, "Int")
	vc.assumeIf(fr.curReach, fmt.Sprintf("(and (<= 0 %s) (<= %s (rd_len %s)) (ite %s (and (= %s 0) (<= %s %s) (<= %s %s) (<= %s %s)) (and (not (= %s 0)) (= %s (ite (< %s 0) 0 %s)) (< %s %s))))",
		p0, p0, r.S, ok, errv, min, n, n, blen, n, avail, errv, n, avail, avail, n, min))
	// the error is an I/O error, never one of the protocol-level client errors or an application error
	vc.assumeIf(fr.curReach, fmt.Sprintf("(=> (not (= %s 0)) (is_io_error %s))", errv, errv))
	if _, inSpec := vc.db.Sigs["is_io_error"]; !vc.declared["is_io_error"] && !inSpec {
		vc.declared["is_io_error"] = true
		vc.decls = append(vc.decls, "(declare-fun is_io_error (Int) Bool)")
	}
	comp := vc.arrComp(types.Typ[types.Uint8])
	ref := fmt.Sprintf("(sl_ref %s)", buf.S)
	off := fmt.Sprintf("(sl_off %s)", buf.S)
	old := fmt.Sprintf("(select %s %s)", vc.get(st, comp), ref)
	a := vc.fresh("rdbuf")
	vc.declare(a, "(Array Int Int)")
	vc.assume(fmt.Sprintf("(forall ((j Int)) (! (= (select %s j) (ite (and (<= %s j) (< j (+ %s %s))) (select (rd_data %s) (+ %s (- j %s))) (select %s j))) :pattern ((select %s j))))",
		a, off, off, n, r.S, p0, off, old, a))
	vc.set(st, comp, fmt.Sprintf("(store %s %s %s)", vc.get(st, comp), ref, a))
	vc.set(st, rp, fmt.Sprintf("(store %s %s (+ %s %s))", vc.get(st, rp), r.S, p0, n))
	vc.assumeIf(fr.curReach, fmt.Sprintf("(forall ((j Int)) (! (and (<= 0 (select (rd_data %s) j)) (< (select (rd_data %s) j) 256)) :pattern ((select (rd_data %s) j))))", r.S, r.S, r.S))
	return []Term{{n, "Int", types.Typ[types.Int]}, {errv, "Int", types.Universe.Lookup("error").Type()}}
}

func beWidth(n string) int {
	switch n {
	case "Uint16":
		return 2
	case "Uint32":
		return 4
	}
	return 8
}

func beRead(fr *Frame, cc *ssa.CallCommon, st *State, pos token.Pos, name string) []Term {
	vc := fr.vc
	b := fr.val(cc.Args[len(cc.Args)-1])
	w := beWidth(name)
	vc.oblige("bounds", fr.autoTags(), fr.curReach, fmt.Sprintf("(>= (sl_len %s) %d)", b.S, w), fmt.Sprintf("binary.BigEndian.%s needs %d bytes", name, w), pos, nil)
	comp := vc.arrComp(types.Typ[types.Uint8])
	arr := fmt.Sprintf("(select %s (sl_ref %s))", vc.get(st, comp), b.S)
	var parts []string
	for i := 0; i < w; i++ {
		parts = append(parts, fmt.Sprintf("(* %s (select %s (+ (sl_off %s) %d)))", pow2(8*(w-1-i)), arr, b.S, i))
	}
	n := vc.fresh("be")
	vc.define(n, "Int", "(+ "+strings.Join(parts, " ")+")")
	sig := cc.Signature()
	rt := sig.Results().At(0).Type()
	vc.assumeIf(fr.curReach, vc.wf(rt, n))
	return []Term{{n, "Int", rt}}
}

func bePut(fr *Frame, cc *ssa.CallCommon, st *State, pos token.Pos, name string) []Term {
	vc := fr.vc
	b := fr.val(cc.Args[len(cc.Args)-2])
	v := fr.val(cc.Args[len(cc.Args)-1])
	w := beWidth(name)
	vc.oblige("bounds", fr.autoTags(), fr.curReach, fmt.Sprintf("(>= (sl_len %s) %d)", b.S, w), fmt.Sprintf("binary.BigEndian.Put%s needs %d bytes", name, w), pos, nil)
	comp := vc.arrComp(types.Typ[types.Uint8])
	ref := fmt.Sprintf("(sl_ref %s)", b.S)
	arr := fmt.Sprintf("(select %s %s)", vc.get(st, comp), ref)
	for i := 0; i < w; i++ {
		byteV := fmt.Sprintf("(mod (div %s %s) 256)", v.S, pow2(8*(w-1-i)))
		arr = fmt.Sprintf("(store %s (+ (sl_off %s) %d) %s)", arr, b.S, i, byteV)
	}
	vc.set(st, comp, fmt.Sprintf("(store %s %s %s)", vc.get(st, comp), ref, arr))
	return nil
}

// poolGet: the object handed out is owned exclusively by the caller until it is Put back; modelled as a
// fresh object with arbitrary contents. The pool kind is declared per package-level pool variable:
//   global bufPool pool:[]byte:24     global reqHeadPool pool:*RequestHeader
func poolGet(fr *Frame, cc *ssa.CallCommon, st *State, pos token.Pos) []Term {
	vc := fr.vc
	kind := fr.poolKind(cc.Args[0])
	anyT := cc.Signature().Results().At(0).Type()
	if kind == "" {
		// unknown pool: use the contract file entry if present
		if spec := vc.lookupSpec("sync.(*Pool).Get"); spec != nil {
			return fr.applyContract(spec, cc, st, pos)
		}
		vc.unsupportedf("sync.Pool.Get on a pool without declared kind at %s", vc.posOf(pos))
		return []Term{vc.freshVal("poolobj", anyT, fr.curReach)}
	}
	vc.callees["sync.Pool (objects are exclusively owned between Get and Put; trusted)"] = true
	parts := strings.Split(kind, ":")
	var payloadT types.Type
	var payload string
	pkg := ""
	if fr.fn.Pkg != nil {
		pkg = shortPkg(fr.fn.Pkg.Pkg.Path())
	}
	if g, ok := rootGlobalOfLoad(cc.Args[0]); ok {
		pkg = shortPkg(g.Pkg.Pkg.Path())
	}
	switch {
	case parts[1] == "[]byte":
		payloadT = types.NewSlice(types.Typ[types.Uint8])
		r := vc.newRef(st, fr.curReach)
		ln := "24"
		if len(parts) > 2 {
			ln = parts[2]
		}
		payload = vc.mkSlice(r, "0", ln, ln)
		// contents arbitrary but byte-valued
		comp := vc.arrComp(types.Typ[types.Uint8])
		a := vc.fresh("poolbuf")
		vc.declare(a, "(Array Int Int)")
		vc.assume(fmt.Sprintf("(forall ((j Int)) (! (and (<= 0 (select %s j)) (< (select %s j) 256)) :pattern ((select %s j))))", a, a, a))
		vc.set(st, comp, fmt.Sprintf("(store %s %s %s)", vc.get(st, comp), r, a))
		// the buffer is owned (by its backing array) until it is Put back
		oc := vc.ownedComp()
		vc.set(st, oc, fmt.Sprintf("(store %s %s true)", vc.get(st, oc), r))
	case strings.HasPrefix(parts[1], "*"):
		t := vc.lookupType(pkg, strings.TrimPrefix(parts[1], "*"))
		if t == nil {
			vc.unsupportedf("pool kind %s: unknown type", kind)
			return []Term{vc.freshVal("poolobj", anyT, fr.curReach)}
		}
		payloadT = types.NewPointer(t)
		r := vc.newRef(st, fr.curReach)
		comp := vc.memComp(t)
		v := vc.freshVal("poolobj", t, fr.curReach)
		vc.set(st, comp, fmt.Sprintf("(store %s %s %s)", vc.get(st, comp), r, v.S))
		payload = r
		oc := vc.ownedComp()
		vc.set(st, oc, fmt.Sprintf("(store %s %s true)", vc.get(st, oc), r))
	default:
		vc.unsupportedf("pool kind %s", kind)
		return []Term{vc.freshVal("poolobj", anyT, fr.curReach)}
	}
	box, unbox := vc.boxFns(payloadT)
	h := vc.fresh("boxed")
	vc.define(h, "Int", fmt.Sprintf("(%s %s)", box, payload))
	vc.assume(fmt.Sprintf("(and (> %s 0) (= (dyntype %s) %s) (= (%s %s) %s))", h, h, vc.tid(payloadT), unbox, h, payload))
	return []Term{{h, "Int", anyT}}
}

func poolPut(fr *Frame, cc *ssa.CallCommon, st *State, pos token.Pos) []Term {
	vc := fr.vc
	if mi, ok := cc.Args[1].(*ssa.MakeInterface); ok && vc.isPooledPtr(mi.X.Type()) {
		p := fr.val(mi.X).S
		fr.requireOwned(p, "Put of an object that is not owned (double Put)", pos, st)
		oc := vc.ownedComp()
		vc.set(st, oc, fmt.Sprintf("(store %s %s false)", vc.get(st, oc), p))
	} else if mi, ok := cc.Args[1].(*ssa.MakeInterface); ok && strings.HasPrefix(fr.poolKind(cc.Args[0]), "pool:[]byte") {
		// a pooled byte buffer goes back once: a second Put of the same backing array would let two
		// later Gets (possibly on two connections) share it
		if _, isSlice := mi.X.Type().Underlying().(*types.Slice); isSlice {
			p := fmt.Sprintf("(sl_ref %s)", fr.val(mi.X).S)
			fr.requireOwned(p, "Put of a buffer that is not owned (double Put)", pos, st)
			oc := vc.ownedComp()
			vc.set(st, oc, fmt.Sprintf("(store %s %s false)", vc.get(st, oc), p))
		}
	}
	return nil
}

func rootGlobalOfLoad(v ssa.Value) (*ssa.Global, bool) {
	if u, ok := v.(*ssa.UnOp); ok && u.Op == token.MUL {
		if g, ok := u.X.(*ssa.Global); ok {
			return g, true
		}
	}
	return nil, false
}

func (fr *Frame) poolKind(v ssa.Value) string {
	if g, ok := rootGlobalOfLoad(v); ok {
		key := shortPkg(g.Pkg.Pkg.Path()) + "." + g.Name()
		if gs, ok := fr.vc.db.Globals[key]; ok && strings.HasPrefix(gs.Kind, "pool:") {
			return gs.Kind
		}
	}
	return ""
}

// ---- writers as ghost output streams ----
// $wr[w] is the byte sequence written to writer w so far (length $wrlen[w]); $wrflush[w] is the length
// at the last successful Flush. The writer identity is the interface value (box of the *bufio.Writer).

func (vc *VC) wrComps() (string, string, string) {
	vc.comp("$wr", "(Array Int (Array Int Int))")
	vc.comp("$wrlen", "(Array Int Int)")
	vc.comp("$wrflush", "(Array Int Int)")
	return "$wr", "$wrlen", "$wrflush"
}

func init() {
	wm := func(fr *Frame, cc *ssa.CallCommon) []string { a, b, c := fr.vc.wrComps(); return []string{a, b, c} }
	nativeCalls["bufio.(*Writer).Write"] = &nativeCall{exec: func(fr *Frame, cc *ssa.CallCommon, st *State, pos token.Pos) []Term {
		return writerWrite(fr, fr.writerID(cc.Args[0]), fr.byteSrc(cc.Args[1], st), st, pos, true)
	}, modifies: wm, doc: "bufio.Writer.Write appends to the output stream"}
	nativeCalls["bufio.(*Writer).WriteString"] = nativeCalls["bufio.(*Writer).Write"]
	nativeCalls["io.Writer.Write"] = &nativeCall{exec: func(fr *Frame, cc *ssa.CallCommon, st *State, pos token.Pos) []Term {
		return writerWrite(fr, fr.vc.canon("wr", fr.val(cc.Value).S), fr.byteSrc(cc.Args[0], st), st, pos, true)
	}, modifies: wm, doc: "io.Writer.Write appends to the output stream"}
	nativeCalls["bufio.(*Writer).Flush"] = &nativeCall{exec: writerFlush, modifies: wm, doc: "bufio.Writer.Flush"}
	nativeCalls["encoding/binary.Write"] = &nativeCall{exec: binaryWrite, modifies: wm, doc: "binary.Write of a fixed-size unsigned integer"}
}

func (fr *Frame) writerID(v ssa.Value) string {
	vc := fr.vc
	t := fr.val(v)
	box, _ := vc.boxFns(v.Type())
	return vc.canon("wr", fmt.Sprintf("(%s %s)", box, t.S))
}

// byteSrc describes the bytes of a []byte or string argument: (array, offset, length).
type byteSrc struct{ arr, off, ln string }

func (fr *Frame) byteSrc(v ssa.Value, st *State) byteSrc {
	vc := fr.vc
	t := fr.val(v)
	if isString(v.Type()) {
		return byteSrc{fmt.Sprintf("(str_arr %s)", t.S), "0", fmt.Sprintf("(str_len %s)", t.S)}
	}
	comp := vc.arrComp(types.Typ[types.Uint8])
	return byteSrc{fmt.Sprintf("(select %s (sl_ref %s))", vc.get(st, comp), t.S), fmt.Sprintf("(sl_off %s)", t.S), fmt.Sprintf("(sl_len %s)", t.S)}
}

func writerWrite(fr *Frame, w string, src byteSrc, st *State, pos token.Pos, returnsN bool) []Term {
	vc := fr.vc
	vc.callees["bufio.Writer / io.Writer (trusted output-stream contract)"] = true
	wr, wl, _ := vc.wrComps()
	oldLen := vc.fresh("wlen")
	vc.define(oldLen, "Int", fmt.Sprintf("(select %s %s)", vc.get(st, wl), w))
	vc.assumeIf(fr.curReach, fmt.Sprintf("(<= 0 %s)", oldLen))
	errv := vc.fresh("werr")
	vc.declare(errv, "Int")
	vc.assumeIf(fr.curReach, fmt.Sprintf("(and (<= 0 %s) (=> faultfree (= %s 0)) (=> (not (= %s 0)) (is_io_error %s)))", errv, errv, errv, errv))
	vc.needFaultfree()
	oldArr := fmt.Sprintf("(select %s %s)", vc.get(st, wr), w)
	a := vc.fresh("wbuf")
	vc.declare(a, "(Array Int Int)")
	n := vc.fresh("wn")
	vc.declare(n, "Int")
	// on success all bytes are appended; on failure some prefix may have been
	vc.assumeIf(fr.curReach, fmt.Sprintf("(and (<= 0 %s) (<= %s %s) (=> (= %s 0) (= %s %s)))", n, n, src.ln, errv, n, src.ln))
	vc.assume(fmt.Sprintf("(forall ((j Int)) (! (= (select %s j) (ite (and (<= %s j) (< j (+ %s %s))) (select %s (+ %s (- j %s))) (select %s j))) :pattern ((select %s j))))",
		a, oldLen, oldLen, n, src.arr, src.off, oldLen, oldArr, a))
	vc.set(st, wr, fmt.Sprintf("(store %s %s %s)", vc.get(st, wr), w, a))
	vc.set(st, wl, fmt.Sprintf("(store %s %s (+ %s %s))", vc.get(st, wl), w, oldLen, n))
	return []Term{{n, "Int", types.Typ[types.Int]}, {errv, "Int", types.Universe.Lookup("error").Type()}}
}

func (vc *VC) needFaultfree() {
	if _, ok := vc.db.Sigs["faultfree"]; !ok && !vc.declared["faultfree"] {
		vc.declared["faultfree"] = true
		vc.decls = append(vc.decls, "(declare-const faultfree Bool)")
	}
}

func writerFlush(fr *Frame, cc *ssa.CallCommon, st *State, pos token.Pos) []Term {
	vc := fr.vc
	w := fr.writerID(cc.Args[0])
	_, wl, wf := vc.wrComps()
	errv := vc.fresh("ferr")
	vc.declare(errv, "Int")
	vc.needFaultfree()
	vc.assumeIf(fr.curReach, fmt.Sprintf("(and (<= 0 %s) (=> faultfree (= %s 0)) (=> (not (= %s 0)) (is_io_error %s)))", errv, errv, errv, errv))
	cur := vc.get(st, wf)
	vc.set(st, wf, fmt.Sprintf("(ite (= %s 0) (store %s %s (select %s %s)) %s)", errv, cur, w, vc.get(st, wl), w, cur))
	return []Term{{errv, "Int", types.Universe.Lookup("error").Type()}}
}

// binaryWrite: binary.Write(w, binary.BigEndian, v) for v of type uint16/uint32/uint64.
func binaryWrite(fr *Frame, cc *ssa.CallCommon, st *State, pos token.Pos) []Term {
	vc := fr.vc
	mi, ok := cc.Args[2].(*ssa.MakeInterface)
	if !ok {
		vc.unsupportedf("binary.Write of a value of unknown static type at %s", vc.posOf(pos))
		return []Term{vc.freshVal("err", types.Universe.Lookup("error").Type(), fr.curReach)}
	}
	w, _, ok2 := intInfo(mi.X.Type())
	if !ok2 {
		vc.unsupportedf("binary.Write of %s", mi.X.Type())
		return []Term{vc.freshVal("err", types.Universe.Lookup("error").Type(), fr.curReach)}
	}
	v := fr.val(mi.X)
	nb := w / 8
	tmp := vc.fresh("bwbuf")
	arr := "((as const (Array Int Int)) 0)"
	for i := 0; i < nb; i++ {
		arr = fmt.Sprintf("(store %s %d (mod (div %s %s) 256))", arr, i, v.S, pow2(8*(nb-1-i)))
	}
	vc.define(tmp, "(Array Int Int)", arr)
	res := writerWrite(fr, vc.canon("wr", fr.val(cc.Args[0]).S), byteSrc{tmp, "0", fmt.Sprint(nb)}, st, pos, false)
	return []Term{res[1]}
}

func init() {
	nativeCalls["bufio.(*Reader).Discard"] = &nativeCall{exec: readerDiscard, modifies: func(fr *Frame, cc *ssa.CallCommon) []string {
		return []string{fr.vc.rdposComp()}
	}, doc: "bufio.Reader.Discard(n) skips n bytes or fails at the end of the stream"}
	nativeCalls["encoding/binary.Read"] = &nativeCall{exec: binaryRead, modifies: func(fr *Frame, cc *ssa.CallCommon) []string {
		return append([]string{fr.vc.rdposComp()}, fr.compsOfAddrArg(cc.Args[2])...)
	}, doc: "binary.Read of a fixed-size unsigned integer through a pointer"}
}

func (fr *Frame) compsOfAddrArg(v ssa.Value) []string {
	if mi, ok := v.(*ssa.MakeInterface); ok {
		return fr.compsOfAddr(mi.X)
	}
	return nil
}

func (fr *Frame) readerID(v ssa.Value) string {
	vc := fr.vc
	t := fr.val(v)
	box, _ := vc.boxFns(v.Type())
	return vc.canon("rd", fmt.Sprintf("(%s %s)", box, t.S))
}

func readerDiscard(fr *Frame, cc *ssa.CallCommon, st *State, pos token.Pos) []Term {
	vc := fr.vc
	r := fr.readerID(cc.Args[0])
	k := fr.val(cc.Args[1])
	rp := vc.rdposComp()
	p0 := vc.fresh("rdpos")
	vc.define(p0, "Int", fmt.Sprintf("(select %s %s)", vc.get(st, rp), r))
	vc.oblige("discard", fr.autoTags(), fr.curReach, fmt.Sprintf("(>= %s 0)", k.S), "bufio.Reader.Discard is called with a non-negative count", pos, nil)
	avail := fmt.Sprintf("(- (rd_len %s) %s)", r, p0)
	n := vc.fresh("dn")
	vc.declare(n, "Int")
	errv := vc.fresh("derr")
	vc.declare(errv, "Int")
	vc.assumeIf(fr.curReach, fmt.Sprintf("(and (<= 0 %s) (<= %s (rd_len %s)) (ite (>= %s %s) (and (= %s 0) (= %s %s)) (and (not (= %s 0)) (is_io_error %s) (= %s (ite (< %s 0) 0 %s)))))",
		p0, p0, r, avail, k.S, errv, n, k.S, errv, errv, n, avail, avail))
	vc.set(st, rp, fmt.Sprintf("(store %s %s (+ %s %s))", vc.get(st, rp), r, p0, n))
	return []Term{{n, "Int", types.Typ[types.Int]}, {errv, "Int", types.Universe.Lookup("error").Type()}}
}

// binaryRead: binary.Read(r, binary.BigEndian, &x) for x of type uint16/uint32/uint64.
func binaryRead(fr *Frame, cc *ssa.CallCommon, st *State, pos token.Pos) []Term {
	vc := fr.vc
	errT := types.Universe.Lookup("error").Type()
	mi, ok := cc.Args[2].(*ssa.MakeInterface)
	if !ok {
		vc.unsupportedf("binary.Read into a value of unknown static type at %s", vc.posOf(pos))
		return []Term{vc.freshVal("err", errT, fr.curReach)}
	}
	pt, ok := mi.X.Type().Underlying().(*types.Pointer)
	if !ok {
		vc.unsupportedf("binary.Read into non-pointer")
		return []Term{vc.freshVal("err", errT, fr.curReach)}
	}
	w, _, ok2 := intInfo(pt.Elem())
	if !ok2 {
		vc.unsupportedf("binary.Read into %s", pt.Elem())
		return []Term{vc.freshVal("err", errT, fr.curReach)}
	}
	nb := w / 8
	r := vc.canon("rd", fr.val(cc.Args[0]).S)
	rp := vc.rdposComp()
	p0 := vc.fresh("rdpos")
	vc.define(p0, "Int", fmt.Sprintf("(select %s %s)", vc.get(st, rp), r))
	avail := fmt.Sprintf("(- (rd_len %s) %s)", r, p0)
	errv := vc.fresh("brerr")
	vc.declare(errv, "Int")
	okc := fmt.Sprintf("(>= %s %d)", avail, nb)
	vc.assumeIf(fr.curReach, fmt.Sprintf("(and (<= 0 %s) (<= %s (rd_len %s)) (ite %s (= %s 0) (and (not (= %s 0)) (is_io_error %s))))", p0, p0, r, okc, errv, errv, errv))
	var parts []string
	for i := 0; i < nb; i++ {
		parts = append(parts, fmt.Sprintf("(* %s (select (rd_data %s) (+ %s %d)))", pow2(8*(nb-1-i)), r, p0, i))
	}
	val := "(+ " + strings.Join(parts, " ") + ")"
	lv := fr.lvalOf(mi.X)
	old := vc.loadL(lv, st)
	vc.assumeIf(fr.curReach, fmt.Sprintf("(forall ((j Int)) (! (and (<= 0 (select (rd_data %s) j)) (< (select (rd_data %s) j) 256)) :pattern ((select (rd_data %s) j))))", r, r, r))
	vc.storeL(lv, fmt.Sprintf("(ite %s %s %s)", okc, val, old.S), st)
	vc.set(st, rp, fmt.Sprintf("(store %s %s (ite %s (+ %s %d) (rd_len %s)))", vc.get(st, rp), r, okc, p0, nb, r))
	return []Term{{errv, "Int", errT}}
}

// ---- ownership of pooled objects (C14) ----
// $owned[p]: the pooled object p is currently owned by this goroutine (between Get and Put).
// Every dereference, argument passing and return of a pointer of a pooled type requires ownership;
// Put requires it and gives it up.

func (vc *VC) ownedComp() string {
	vc.comp("$owned", "(Array Int Bool)")
	return "$owned"
}

// isPooledPtr reports whether t is a pointer to a struct type that some declared pool hands out.
func (vc *VC) isPooledPtr(t types.Type) bool {
	pt, ok := t.Underlying().(*types.Pointer)
	if !ok {
		return false
	}
	n, ok := pt.Elem().(*types.Named)
	if !ok || n.Obj().Pkg() == nil {
		return false
	}
	pkg := shortPkg(n.Obj().Pkg().Path())
	for _, gs := range vc.db.Globals {
		if gs.Pkg == pkg && gs.Kind == "pool:*"+n.Obj().Name() {
			return true
		}
	}
	return false
}

func (fr *Frame) ownTags() []string {
	if fr.vc.spec != nil && contains(fr.vc.spec.Props, "C14") {
		// in the parsers the same discipline is what keeps one connection's malformed input from
		// reaching another connection through a recycled header (C11)
		if contains(fr.vc.spec.Props, "C11") {
			return []string{"C14", "C11"}
		}
		return []string{"C14"}
	}
	return []string{"C14-not-claimed-here"}
}

func (fr *Frame) requireOwned(p string, what string, pos token.Pos, st *State) {
	vc := fr.vc
	vc.oblige("ownership", fr.ownTags(), fr.curReach, fmt.Sprintf("(select %s %s)", vc.get(st, vc.ownedComp()), p), "pooled object is owned (not used after Put): "+what, pos, nil)
}

// strconv.AppendInt(dst, v, 10): appends the decimal representation dec_arr(v) of length dec_len(v).
func init() {
	nativeCalls["strconv.AppendInt"] = &nativeCall{exec: func(fr *Frame, cc *ssa.CallCommon, st *State, pos token.Pos) []Term {
		vc := fr.vc
		vc.callees["strconv.AppendInt (decimal digits; trusted)"] = true
		dst := fr.val(cc.Args[0])
		v := fr.val(cc.Args[1])
		if c, ok := constInt(cc.Args[2]); !ok || c.Int64() != 10 {
			vc.unsupportedf("strconv.AppendInt with a base other than 10")
		}
		et := types.Typ[types.Uint8]
		res := fr.appendModel(dst.S, et, fmt.Sprintf("(dec_arr %s)", v.S), "0", fmt.Sprintf("(dec_len %s)", v.S), st)
		n := vc.fresh("appint")
		vc.define(n, "Slice", res)
		return []Term{{n, "Slice", cc.Args[0].Type()}}
	}, modifies: func(fr *Frame, cc *ssa.CallCommon) []string {
		return []string{fr.vc.arrComp(types.Typ[types.Uint8]), "$alloc"}
	}, doc: "strconv.AppendInt base 10"}
}

func init() {
	nativeCalls["bytes.Equal"] = &nativeCall{exec: func(fr *Frame, cc *ssa.CallCommon, st *State, pos token.Pos) []Term {
		vc := fr.vc
		a := fr.byteSrc(cc.Args[0], st)
		b := fr.byteSrc(cc.Args[1], st)
		r := vc.fresh("byteseq")
		vc.declare(r, "Bool")
		w := vc.fresh("diffidx")
		vc.declare(w, "Int")
		// r  => equal lengths and equal at every index; !r => lengths differ or a witness index differs
		vc.assume(fmt.Sprintf("(=> %s (and (= %s %s) (forall ((j Int)) (! (=> (and (<= 0 j) (< j %s)) (= (select %s (+ %s j)) (select %s (+ %s j)))) :pattern ((select %s (+ %s j)))))))", r, a.ln, b.ln, a.ln, a.arr, a.off, b.arr, b.off, a.arr, a.off))
		vc.assume(fmt.Sprintf("(=> (not %s) (or (not (= %s %s)) (and (<= 0 %s) (< %s %s) (not (= (select %s (+ %s %s)) (select %s (+ %s %s)))))))", r, a.ln, b.ln, w, w, a.ln, a.arr, a.off, w, b.arr, b.off, w))
		return []Term{{r, "Bool", types.Typ[types.Bool]}}
	}, modifies: func(*Frame, *ssa.CallCommon) []string { return nil }, doc: "bytes.Equal"}
}

// sort.Search(n, f) with f a closure that has a `pure E` contract: the result r satisfies
// 0 <= r <= n, (r < n ==> E(r)) and E(j) is false for every j < r, provided E is monotone on [0,n)
// (obligation). This is the contract of binary search (trusted).
func init() {
	nativeCalls["sort.Search"] = &nativeCall{exec: func(fr *Frame, cc *ssa.CallCommon, st *State, pos token.Pos) []Term {
		vc := fr.vc
		vc.callees["sort.Search (binary search over a monotone predicate; trusted)"] = true
		n := fr.val(cc.Args[0])
		r := vc.fresh("search")
		vc.declare(r, "Int")
		res := []Term{{r, "Int", types.Typ[types.Int]}}
		vc.assumeIf(fr.curReach, fmt.Sprintf("(and (<= 0 %s) (<= %s %s))", r, r, n.S))
		mc, ok := cc.Args[1].(*ssa.MakeClosure)
		if !ok {
			vc.unsupportedf("sort.Search with a predicate that is not a closure literal")
			return res
		}
		fn := mc.Fn.(*ssa.Function)
		spec := vc.lookupSpec(qualName(fn))
		if spec == nil || spec.Pure == nil {
			vc.unsupportedf("sort.Search predicate %s has no `pure` contract", qualName(fn))
			return res
		}
		vc.callees[spec.Key] = true
		mkCtx := func(arg Term) *SpecCtx {
			env := map[string]Term{}
			if len(fn.Params) > 0 {
				env[fn.Params[0].Name()] = arg
			}
			for k, fv := range fn.FreeVars {
				b := mc.Bindings[k]
				lv := fr.lvalOf(b)
				env[fv.Name()] = vc.loadL(lv, st)
			}
			return &SpecCtx{vc: vc, env: env, st: st, old: st, pkg: spec.Pkg}
		}
		at := func(x string) (string, bool) {
			g, err := mkCtx(Term{x, "Int", types.Typ[types.Int]}).evalBool(spec.Pure.E)
			if err != nil {
				vc.unsupportedf("sort.Search predicate: %v", err)
				return "", false
			}
			return g, true
		}
		// monotone predicate (obligation)
		ea, ok1 := at("q_a")
		eb, ok2 := at("q_b")
		if ok1 && ok2 {
			mono := fmt.Sprintf("(forall ((q_a Int) (q_b Int)) (=> (and (<= 0 q_a) (< q_a q_b) (< q_b %s) %s) %s))", n.S, ea, eb)
			vc.oblige("precondition", fr.autoTags(), fr.curReach, mono, "sort.Search: the predicate is monotone on [0, n)", pos, nil)
		}
		if er, ok := at(r); ok {
			vc.assumeIf(fr.curReach, fmt.Sprintf("(=> (< %s %s) %s)", r, n.S, er))
		}
		if ej, ok := at("q_j"); ok {
			body := fmt.Sprintf("(=> (and (<= 0 q_j) (< q_j %s)) (not %s))", r, ej)
			if pats := inferPatterns(body, "q_j"); len(pats) > 0 {
				var ps []string
				for _, p := range pats {
					ps = append(ps, ":pattern ("+p+")")
				}
				body = fmt.Sprintf("(! %s %s)", body, strings.Join(ps, " "))
			}
			vc.assumeIf(fr.curReach, fmt.Sprintf("(forall ((q_j Int)) %s)", body))
		}
		return res
	}, modifies: func(*Frame, *ssa.CallCommon) []string { return nil }, doc: "sort.Search"}
	nativeCalls["crypto/md5.Sum"] = &nativeCall{exec: func(fr *Frame, cc *ssa.CallCommon, st *State, pos token.Pos) []Term {
		vc := fr.vc
		vc.callees["crypto/md5.Sum (an uninterpreted function of the content; trusted)"] = true
		src := fr.byteSrc(cc.Args[0], st)
		if !vc.declared["md5_of"] {
			vc.declared["md5_of"] = true
			if _, ok := vc.db.Sigs["md5_of"]; !ok {
				vc.decls = append(vc.decls, "(declare-fun md5_of (Bytes) (Array Int Int))")
			}
		}
		n := vc.fresh("md5")
		vc.define(n, "(Array Int Int)", fmt.Sprintf("(md5_of (bytes_of %s %s %s))", src.arr, src.off, src.ln))
		vc.assume(fmt.Sprintf("(forall ((j Int)) (! (and (<= 0 (select %s j)) (< (select %s j) 256)) :pattern ((select %s j))))", n, n, n))
		return []Term{{n, "(Array Int Int)", cc.Signature().Results().At(0).Type()}}
	}, modifies: func(*Frame, *ssa.CallCommon) []string { return nil }, doc: "md5.Sum"}
	for _, nm := range []string{"Uint16", "Uint32", "Uint64"} {
		nm := nm
		nativeCalls["encoding/binary.(littleEndian)."+nm] = &nativeCall{exec: func(fr *Frame, cc *ssa.CallCommon, st *State, pos token.Pos) []Term {
			vc := fr.vc
			b := fr.val(cc.Args[len(cc.Args)-1])
			w := beWidth(nm)
			vc.oblige("bounds", fr.autoTags(), fr.curReach, fmt.Sprintf("(>= (sl_len %s) %d)", b.S, w), fmt.Sprintf("binary.LittleEndian.%s needs %d bytes", nm, w), pos, nil)
			comp := vc.arrComp(types.Typ[types.Uint8])
			arr := fmt.Sprintf("(select %s (sl_ref %s))", vc.get(st, comp), b.S)
			var parts []string
			for i := 0; i < w; i++ {
				parts = append(parts, fmt.Sprintf("(* %s (select %s (+ (sl_off %s) %d)))", pow2(8*i), arr, b.S, i))
			}
			n := vc.fresh("le")
			vc.define(n, "Int", "(+ "+strings.Join(parts, " ")+")")
			rt := cc.Signature().Results().At(0).Type()
			vc.assumeIf(fr.curReach, vc.wf(rt, n))
			return []Term{{n, "Int", rt}}
		}, modifies: func(*Frame, *ssa.CallCommon) []string { return nil }, doc: "little-endian decode"}
	}
}

// sync/atomic.Value: a cell holding an interface value (its field v); Load / Store are sequentially
// consistent (trusted).
func init() {
	avLV := func(fr *Frame, cc *ssa.CallCommon, pos token.Pos) *LVal {
		lv := fr.lvalOf(cc.Args[0])
		if _, isL := fr.lvals[cc.Args[0]]; !isL && lv.Ref != "" {
			fr.nilCheck(lv.Ref, "atomic.Value", pos)
		}
		st, ok := lv.T.Underlying().(*types.Struct)
		if !ok || st.NumFields() != 1 {
			fr.vc.unsupportedf("atomic.Value layout")
			return lv
		}
		fr.vc.callees["sync/atomic.Value (sequentially consistent cell; trusted)"] = true
		return &LVal{Comp: lv.Comp, Ref: lv.Ref, Path: append(append([]pathElem{}, lv.Path...), pathElem{field: 0, structT: lv.T}), T: st.Field(0).Type()}
	}
	nativeCalls["sync/atomic.(*Value).Load"] = &nativeCall{exec: func(fr *Frame, cc *ssa.CallCommon, st *State, pos token.Pos) []Term {
		lv := avLV(fr, cc, pos)
		t := fr.vc.loadL(lv, st)
		n := fr.vc.fresh("avload")
		fr.vc.define(n, "Int", t.S)
		return []Term{{n, "Int", cc.Signature().Results().At(0).Type()}}
	}, modifies: func(*Frame, *ssa.CallCommon) []string { return nil }, doc: "atomic.Value.Load"}
	nativeCalls["sync/atomic.(*Value).Store"] = &nativeCall{exec: func(fr *Frame, cc *ssa.CallCommon, st *State, pos token.Pos) []Term {
		lv := avLV(fr, cc, pos)
		fr.vc.storeL(lv, fr.val(cc.Args[1]).S, st)
		return nil
	}, modifies: func(fr *Frame, cc *ssa.CallCommon) []string { return fr.compsOfAddr(cc.Args[0]) }, doc: "atomic.Value.Store"}
}

// atMapUpdateAsserts checks `at mapupdate <mapvar>: assert e` clauses; $key / $val are the key and value
// being stored, the map is in its state before the update.
func (fr *Frame) atMapUpdateAsserts(ins *ssa.MapUpdate, k, v Term, st *State) {
	if fr.spec == nil || !fr.isTop {
		return
	}
	vc := fr.vc
	for _, at := range fr.spec.Ats {
		if at.Clause == nil && at.Ghost == nil {
			continue
		}
		if !strings.HasPrefix(at.Callee, "mapupdate:") {
			continue
		}
		name := strings.TrimPrefix(at.Callee, "mapupdate:")
		ctx := fr.specCtx(st, fr.entry, fr.curBlock, fr.curIdx)
		mt, err := ctx.eval(mustParse(name))
		if err != nil {
			continue
		}
		// is this the map the clause names? Decided syntactically when the terms coincide, otherwise
		// left to the solver (a field path such as batch.channels is not textually the SSA register)
		same := "true"
		if mt.S != fr.val(ins.Map).S {
			if mt.T == nil || !types.Identical(mt.T.Underlying(), ins.Map.Type().Underlying()) {
				continue
			}
			same = fmt.Sprintf("(= %s %s)", mt.S, fr.val(ins.Map).S)
		}
		vc.atMatched[at] = true
		k.T = ins.Key.Type()
		v.T = ins.Value.Type()
		ctx.env["$key"] = k
		ctx.env["$val"] = v
		if at.Ghost != nil {
			if same == "true" {
				fr.applyGhosts([]*GhostAssign{at.Ghost}, ctx, st)
			} else {
				before := vc.get(st, at.Ghost.Name)
				fr.applyGhosts([]*GhostAssign{at.Ghost}, ctx, st)
				after := vc.get(st, at.Ghost.Name)
				vc.set(st, at.Ghost.Name, fmt.Sprintf("(ite %s %s %s)", same, after, before))
			}
			continue
		}
		g, err := ctx.evalBool(at.Clause.E)
		if err != nil {
			vc.unsupportedf("at mapupdate %s: %v", name, err)
			continue
		}
		if same != "true" {
			g = fmt.Sprintf("(=> %s %s)", same, g)
		}
		vc.oblige("assert", fr.tagsFor(at.Clause.Tags), fr.curReach, g, fmt.Sprintf("at update of map %s: %s", name, at.Clause.Text), ins.Pos(), at.Clause)
	}
}

// bytes.Buffer as an output stream: Write / WriteString append (never fail), Reset empties.
func init() {
	wm := func(fr *Frame, cc *ssa.CallCommon) []string { a, b, c := fr.vc.wrComps(); return []string{a, b, c} }
	nativeCalls["bytes.(*Buffer).Write"] = &nativeCall{exec: func(fr *Frame, cc *ssa.CallCommon, st *State, pos token.Pos) []Term {
		fr.nilCheck(fr.val(cc.Args[0]).S, "bytes.Buffer", pos)
		res := writerWrite(fr, fr.writerID(cc.Args[0]), fr.byteSrc(cc.Args[1], st), st, pos, true)
		// writes to a bytes.Buffer never return an error
		fr.vc.assumeIf(fr.curReach, fmt.Sprintf("(= %s 0)", res[1].S))
		return res
	}, modifies: wm, doc: "bytes.Buffer.Write appends and never fails"}
	nativeCalls["bytes.(*Buffer).WriteString"] = nativeCalls["bytes.(*Buffer).Write"]
	nativeCalls["bytes.(*Buffer).Reset"] = &nativeCall{exec: func(fr *Frame, cc *ssa.CallCommon, st *State, pos token.Pos) []Term {
		vc := fr.vc
		fr.nilCheck(fr.val(cc.Args[0]).S, "bytes.Buffer", pos)
		w := fr.writerID(cc.Args[0])
		_, wl, wf := vc.wrComps()
		vc.set(st, wl, fmt.Sprintf("(store %s %s 0)", vc.get(st, wl), w))
		vc.set(st, wf, fmt.Sprintf("(store %s %s 0)", vc.get(st, wf), w))
		return nil
	}, modifies: wm, doc: "bytes.Buffer.Reset"}
}

// msumFn: msum_<map type>(content, V) — the sum of the (integer) values stored under the keys in V.
// Constrained only by the facts emitted at `range` (empty set: 0) and at each `next` (one more key).
func (vc *VC) msumFn(mt *types.Map) string {
	name := "msum_" + typeKey(mt)
	if !vc.declared[name] {
		vc.declared[name] = true
		vc.decls = append(vc.decls, fmt.Sprintf("(declare-fun %s ((Array %s %s) (Array %s Bool)) Int)", name, vc.sortOf(mt.Key()), vc.optSort(mt.Elem()), vc.sortOf(mt.Key())))
	}
	return name
}

// sort.Sort(x) for x a named slice type whose Less method carries a `pure` contract (verified like any
// other function): afterwards the slice's elements are a rearrangement of the old ones (every new
// element is an old one, stated with an index function), nothing outside the slice
// changed, and no later element is Less than an earlier one. Contract of the library routine, trusted;
// Len and Swap are taken to be the canonical ones for a slice type.
func init() {
	nativeCalls["sort.Sort"] = &nativeCall{exec: func(fr *Frame, cc *ssa.CallCommon, st *State, pos token.Pos) []Term {
		vc := fr.vc
		vc.callees["sort.Sort (result sorted by Less, a rearrangement of the input; trusted)"] = true
		mi, ok := cc.Args[0].(*ssa.MakeInterface)
		if !ok {
			vc.unsupportedf("sort.Sort of a value that is not a slice-type conversion at %s", vc.posOf(pos))
			return nil
		}
		named, ok := mi.X.Type().(*types.Named)
		var sl *types.Slice
		if ok {
			sl, ok = named.Underlying().(*types.Slice)
		}
		if !ok {
			vc.unsupportedf("sort.Sort of %s (not a named slice type)", mi.X.Type())
			return nil
		}
		key := fmt.Sprintf("%s.(%s).Less", shortPkg(named.Obj().Pkg().Path()), named.Obj().Name())
		spec := vc.lookupSpec(key)
		if spec == nil || spec.Pure == nil {
			vc.unsupportedf("sort.Sort: %s has no `pure` contract", key)
			return nil
		}
		vc.callees[spec.Key] = true
		var lessFn *ssa.Function
		if ms := vc.w.Prog.MethodSets.MethodSet(named); ms != nil {
			for i := 0; i < ms.Len(); i++ {
				if ms.At(i).Obj().Name() == "Less" {
					lessFn = vc.w.Prog.MethodValue(ms.At(i))
				}
			}
		}
		if lessFn == nil || len(lessFn.Params) != 3 {
			vc.unsupportedf("sort.Sort: method Less of %s not found", named)
			return nil
		}
		s := fr.val(mi.X)
		comp := vc.arrComp(sl.Elem())
		oldAll := vc.get(st, comp)
		es := vc.sortOf(sl.Elem())
		oldArr := vc.fresh("sortold")
		vc.define(oldArr, fmt.Sprintf("(Array %s %s)", vc.isort(), es), fmt.Sprintf("(select %s (sl_ref %s))", oldAll, s.S))
		newArr := vc.fresh("sorted")
		vc.declare(newArr, fmt.Sprintf("(Array %s %s)", vc.isort(), es))
		vc.set(st, comp, fmt.Sprintf("(store %s (sl_ref %s) %s)", oldAll, s.S, newArr))
		if vc.bv {
			vc.unsupportedf("sort.Sort in bit-vector mode")
			return nil
		}
		// positions are slice-relative (the element at position k is arr[off+k]) so that quantified facts
		// about the slice, whose triggers have the form (select arr (+ off k)), chain through perm/iperm
		off := fmt.Sprintf("(sl_off %s)", s.S)
		n := fmt.Sprintf("(sl_len %s)", s.S)
		in := func(k string) string { return fmt.Sprintf("(and (<= 0 %s) (< %s %s))", k, k, n) }
		at := func(a, k string) string { return fmt.Sprintf("(select %s (+ %s %s))", a, off, k) }
		perm, iperm := vc.fresh("perm"), vc.fresh("iperm")
		vc.decls = append(vc.decls, fmt.Sprintf("(declare-fun %s (Int) Int)", perm))
		r := fr.curReach
		vc.assumeIf(r, fmt.Sprintf("(forall ((q_k Int)) (! (=> (or (< q_k %s) (>= q_k (+ %s %s))) (= (select %s q_k) (select %s q_k))) :pattern ((select %s q_k))))", off, off, n, newArr, oldArr, newArr))
		vc.assumeIf(r, fmt.Sprintf("(forall ((q_k Int)) (! (=> %s (and %s (= %s %s))) :pattern (%s)))", in("q_k"), in("("+perm+" q_k)"), at(newArr, "q_k"), at(oldArr, "("+perm+" q_k)"), at(newArr, "q_k")))
		_ = iperm // the converse (every old element survives) would form a matching loop with perm; not needed so far
		// sorted: for positions i < j of the slice, not Less(j, i)
		env := map[string]Term{
			lessFn.Params[0].Name(): s,
			lessFn.Params[1].Name(): {"q_j", "Int", types.Typ[types.Int]},
			lessFn.Params[2].Name(): {"q_i", "Int", types.Typ[types.Int]},
		}
		ctx := &SpecCtx{vc: vc, env: env, st: st, old: st, pkg: spec.Pkg}
		g, err := ctx.evalBool(spec.Pure.E)
		if err != nil {
			vc.unsupportedf("sort.Sort: contract of %s: %v", key, err)
			return nil
		}
		body := fmt.Sprintf("(=> (and (<= 0 q_i) (< q_i q_j) (< q_j (sl_len %s))) (not %s))", s.S, g)
		pi, pj := inferPatterns(body, "q_i"), inferPatterns(body, "q_j")
		if len(pi) > 0 && len(pj) > 0 {
			body = fmt.Sprintf("(! %s :pattern (%s %s))", body, pi[0], pj[0])
		}
		vc.assumeIf(r, fmt.Sprintf("(forall ((q_i Int) (q_j Int)) %s)", body))
		return nil
	}, modifies: func(fr *Frame, cc *ssa.CallCommon) []string {
		if mi, ok := cc.Args[0].(*ssa.MakeInterface); ok {
			if sl, ok := mi.X.Type().Underlying().(*types.Slice); ok {
				return []string{fr.vc.arrComp(sl.Elem())}
			}
		}
		return nil
	}, doc: "sort.Sort"}
}
