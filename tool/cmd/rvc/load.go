package main

import (
	"os/exec"
	"fmt"
	"go/ast"
	"go/token"
	"go/types"
	"os"
	"path/filepath"
	"sort"
	"strings"

	"golang.org/x/tools/go/packages"
	"golang.org/x/tools/go/ssa"
	"golang.org/x/tools/go/ssa/ssautil"
)

const repoModule = "github.com/netflix/rend"

// World is everything loaded from /repo's current working tree.
type World struct {
	RepoDir string
	Fset    *token.FileSet
	Pkgs    []*packages.Package
	Prog    *ssa.Program
	SSAPkgs map[string]*ssa.Package // by import path
	PkgByPath map[string]*packages.Package
	Specs   *SpecDB
}

// loadWorld loads the given repo-relative package patterns (e.g. "./metrics") with -tags=verif.
func loadWorld(repoDir string, patterns []string, extraTags string) (*World, error) {
	tags := "verif"
	if extraTags != "" {
		tags += "," + extraTags
	}
	cfg := &packages.Config{
		Mode: loadMode(),
		Dir:        repoDir,
		BuildFlags: []string{"-tags=" + tags},
		Env: append(os.Environ(), "GOFLAGS=-mod=mod", "GOPROXY=off", "GOSUMDB=off", "GOTOOLCHAIN=local",
			"GOARCH="+goarchFor(extraTags)),
	}
	if os.Getenv("RVC_LOAD_SOURCE") == "" {
		// every package of the repository that the requested ones depend on is loaded from source too
		// (as before); only what lies outside the module comes from export data
		if more := repoClosure(repoDir, patterns, cfg); len(more) > 0 {
			patterns = more
		}
	}
	pkgs, err := packages.Load(cfg, patterns...)
	if err != nil {
		return nil, err
	}
	var errs []string
	packages.Visit(pkgs, nil, func(p *packages.Package) {
		if strings.HasPrefix(p.PkgPath, repoModule) {
			for _, e := range p.Errors {
				errs = append(errs, e.Error())
			}
		}
	})
	if len(errs) > 0 {
		return nil, fmt.Errorf("load errors: %s", strings.Join(errs, "; "))
	}
	prog, _ := ssautil.AllPackages(pkgs, ssa.GlobalDebug|ssa.BareInits)
	w := &World{RepoDir: repoDir, Pkgs: pkgs, Prog: prog, SSAPkgs: map[string]*ssa.Package{}, PkgByPath: map[string]*packages.Package{}}
	if len(pkgs) > 0 {
		w.Fset = pkgs[0].Fset
	}
	packages.Visit(pkgs, nil, func(p *packages.Package) {
		w.PkgByPath[p.PkgPath] = p
		if strings.HasPrefix(p.PkgPath, repoModule) {
			if sp := prog.Package(p.Types); sp != nil {
				sp.Build()
				w.SSAPkgs[p.PkgPath] = sp
			}
		}
	})
	return w, nil
}

// loadMode: by default dependencies outside the requested packages (the standard library above all)
// come from compiler export data instead of being type-checked from source: their bodies are never
// needed (calls into them are checked against contracts), and this is most of the load time.
// RVC_LOAD_SOURCE=1 restores loading everything from source.
func loadMode() packages.LoadMode {
	m := packages.NeedName | packages.NeedFiles | packages.NeedCompiledGoFiles | packages.NeedImports |
		packages.NeedTypes | packages.NeedSyntax | packages.NeedTypesInfo | packages.NeedTypesSizes
	if os.Getenv("RVC_LOAD_SOURCE") != "" {
		m |= packages.NeedDeps
	} else {
		m |= packages.NeedExportFile
	}
	return m
}

// repoClosure lists the import paths of the requested packages and of every package of this module
// they (transitively) import.
func repoClosure(repoDir string, patterns []string, cfg *packages.Config) []string {
	args := append([]string{"list", "-deps", "-f", "{{.ImportPath}}"}, cfg.BuildFlags...)
	args = append(args, patterns...)
	cmd := exec.Command("go", args...)
	cmd.Dir = repoDir
	cmd.Env = cfg.Env
	out, err := cmd.Output()
	if err != nil {
		return nil
	}
	var res []string
	for _, l := range strings.Split(string(out), "\n") {
		l = strings.TrimSpace(l)
		if l == repoModule || strings.HasPrefix(l, repoModule+"/") {
			res = append(res, l)
		}
	}
	return res
}

func goarchFor(extraTags string) string {
	if strings.Contains(extraTags, "portable") {
		return "arm64" // selects the !amd64 files (metrics/lzcnt.go)
	}
	return "amd64"
}

// qualName gives the canonical contract key of an ssa function:
//   pkgpath.Func, pkgpath.(*T).M, pkgpath.(T).M ; closures: parent$N
func qualName(f *ssa.Function) string {
	if f.Parent() != nil {
		return qualName(f.Parent()) + "$" + strings.TrimPrefix(f.Name(), f.Parent().Name()+"$")
	}
	pkg := ""
	if f.Pkg != nil {
		pkg = f.Pkg.Pkg.Path()
	} else if f.Object() != nil && f.Object().Pkg() != nil {
		pkg = f.Object().Pkg().Path()
	}
	if recv := f.Signature.Recv(); recv != nil {
		t := recv.Type()
		ptr := false
		if p, ok := t.(*types.Pointer); ok {
			t = p.Elem()
			ptr = true
		}
		name := "?"
		if n, ok := t.(*types.Named); ok {
			name = n.Obj().Name()
			if n.Obj().Pkg() != nil {
				pkg = n.Obj().Pkg().Path()
			}
		}
		if ptr {
			return fmt.Sprintf("%s.(*%s).%s", shortPkg(pkg), name, f.Name())
		}
		return fmt.Sprintf("%s.(%s).%s", shortPkg(pkg), name, f.Name())
	}
	return shortPkg(pkg) + "." + f.Name()
}

// shortPkg strips the module prefix: github.com/netflix/rend/orcas -> orcas
func shortPkg(p string) string {
	if p == repoModule {
		return "rend"
	}
	return strings.TrimPrefix(p, repoModule+"/")
}

func longPkg(p string) string {
	if strings.Contains(p, ".") && strings.Contains(p, "/") {
		return p
	}
	if _, err := os.Stat(filepath.Join("/repo", p)); err == nil {
		return repoModule + "/" + p
	}
	return p
}

// allFunctions enumerates functions (incl. methods and closures) of the repo packages loaded.
func (w *World) allFunctions() map[string]*ssa.Function {
	out := map[string]*ssa.Function{}
	var add func(f *ssa.Function)
	add = func(f *ssa.Function) {
		if f == nil || f.Blocks == nil {
			return
		}
		out[qualName(f)] = f
		for _, a := range f.AnonFuncs {
			add(a)
		}
	}
	for _, sp := range w.SSAPkgs {
		for _, m := range sp.Members {
			switch m := m.(type) {
			case *ssa.Function:
				add(m)
			case *ssa.Type:
				for _, t := range []types.Type{m.Type(), types.NewPointer(m.Type())} {
					ms := w.Prog.MethodSets.MethodSet(t)
					for i := 0; i < ms.Len(); i++ {
						fn := w.Prog.MethodValue(ms.At(i))
						if fn != nil && fn.Synthetic == "" {
							add(fn)
						}
					}
				}
			}
		}
	}
	return out
}

func (w *World) dumpFunc(name string) {
	fns := w.allFunctions()
	var names []string
	for n := range fns {
		names = append(names, n)
	}
	sort.Strings(names)
	for _, n := range names {
		if n == name || (strings.HasSuffix(name, "*") && strings.HasPrefix(n, strings.TrimSuffix(name, "*"))) {
			fns[n].WriteTo(os.Stdout)
		}
	}
	if name == "list" {
		for _, n := range names {
			fmt.Println(n)
		}
	}
}

// declOf finds the AST of a package-level var (for constant tables).
func (w *World) varInit(pkgPath, name string) ast.Expr {
	p := w.PkgByPath[pkgPath]
	if p == nil {
		return nil
	}
	for _, f := range p.Syntax {
		for _, d := range f.Decls {
			gd, ok := d.(*ast.GenDecl)
			if !ok || gd.Tok != token.VAR {
				continue
			}
			for _, s := range gd.Specs {
				vs := s.(*ast.ValueSpec)
				for i, n := range vs.Names {
					if n.Name == name && i < len(vs.Values) {
						return vs.Values[i]
					}
				}
			}
		}
	}
	return nil
}
