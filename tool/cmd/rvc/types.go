package main

import (
	"fmt"
	"go/types"
	"math/big"
	"regexp"
	"strings"
)

// Term is an SMT term with its sort and (when known) the Go type it models.
type Term struct {
	S    string
	Sort string
	T    types.Type
}

func (t Term) String() string { return t.S }

var two = big.NewInt(2)
var byteRe = regexp.MustCompile(`\bbyte\b`)
var runeRe = regexp.MustCompile(`\brune\b`)
var anyRe = regexp.MustCompile(`\bany\b`)

func pow2(n int) string { return new(big.Int).Exp(two, big.NewInt(int64(n)), nil).String() }

// intInfo returns (width, signed, ok) for Go integer types.
func intInfo(t types.Type) (int, bool, bool) {
	b, ok := t.Underlying().(*types.Basic)
	if !ok {
		return 0, false, false
	}
	switch b.Kind() {
	case types.Int8:
		return 8, true, true
	case types.Int16:
		return 16, true, true
	case types.Int32:
		return 32, true, true
	case types.Int64, types.Int:
		return 64, true, true
	case types.Uint8:
		return 8, false, true
	case types.Uint16:
		return 16, false, true
	case types.Uint32:
		return 32, false, true
	case types.Uint64, types.Uint, types.Uintptr:
		return 64, false, true
	case types.UntypedInt, types.UntypedRune:
		return 64, true, true
	}
	return 0, false, false
}

func isFloat(t types.Type) bool {
	b, ok := t.Underlying().(*types.Basic)
	return ok && b.Info()&types.IsFloat != 0
}

func isString(t types.Type) bool {
	b, ok := t.Underlying().(*types.Basic)
	return ok && b.Info()&types.IsString != 0
}

func isBool(t types.Type) bool {
	b, ok := t.Underlying().(*types.Basic)
	return ok && b.Info()&types.IsBoolean != 0
}

// typeKey is a stable, SMT-identifier-safe name for a Go type.
func typeKey(t types.Type) string {
	s := types.TypeString(t, func(p *types.Package) string { return shortPkg(p.Path()) })
	s = byteRe.ReplaceAllString(s, "uint8")
	s = runeRe.ReplaceAllString(s, "int32")
	s = anyRe.ReplaceAllString(s, "interface{}")
	r := strings.NewReplacer("/", "_", ".", "_", "*", "P", "[", "A", "]", "_", " ", "", "{", "L", "}", "R", ";", "_", "(", "", ")", "", ",", "_", "<", "", "-", "")
	return r.Replace(s)
}

func (vc *VC) isort() string {
	if vc.bv {
		return "(_ BitVec 64)"
	}
	return "Int"
}

// sortOf maps a Go type to an SMT sort, declaring datatypes on demand.
func (vc *VC) sortOf(t types.Type) string {
	switch u := t.Underlying().(type) {
	case *types.Basic:
		switch {
		case u.Info()&types.IsBoolean != 0:
			return "Bool"
		case u.Info()&types.IsInteger != 0:
			if vc.bv {
				w, _, _ := intInfo(t)
				return fmt.Sprintf("(_ BitVec %d)", w)
			}
			return "Int"
		case u.Info()&types.IsString != 0:
			return "Str"
		case u.Info()&types.IsFloat != 0:
			return "F64"
		case u.Kind() == types.UnsafePointer:
			return "Int"
		case u.Kind() == types.UntypedNil:
			return "Int"
		}
	case *types.Pointer, *types.Interface, *types.Signature, *types.Chan, *types.Map:
		return "Int"
	case *types.Slice:
		return "Slice"
	case *types.Array:
		return fmt.Sprintf("(Array %s %s)", vc.isort(), vc.sortOf(u.Elem()))
	case *types.Struct:
		return vc.structSort(t, u)
	case *types.Tuple:
		if u.Len() == 0 {
			return "Unit"
		}
		return vc.tupleSort(u)
	}
	vc.unsupportedf("type %s", t)
	return "Int"
}

func (vc *VC) structSort(t types.Type, u *types.Struct) string {
	name := "S_" + typeKey(t)
	if vc.declared[name] {
		return name
	}
	vc.declared[name] = true
	var fields []string
	for i := 0; i < u.NumFields(); i++ {
		f := u.Field(i)
		fields = append(fields, fmt.Sprintf("(%s_%s %s)", name, f.Name(), vc.sortOf(f.Type())))
	}
	if len(fields) == 0 {
		vc.decls = append(vc.decls, fmt.Sprintf("(declare-datatypes ((%s 0)) (((mk_%s))))", name, name))
	} else {
		vc.decls = append(vc.decls, fmt.Sprintf("(declare-datatypes ((%s 0)) (((mk_%s %s))))", name, name, strings.Join(fields, " ")))
	}
	return name
}

func (vc *VC) tupleSort(u *types.Tuple) string {
	var parts []string
	for i := 0; i < u.Len(); i++ {
		parts = append(parts, typeKey(u.At(i).Type()))
	}
	name := "T_" + strings.Join(parts, "__")
	if vc.declared[name] {
		return name
	}
	vc.declared[name] = true
	var fields []string
	for i := 0; i < u.Len(); i++ {
		fields = append(fields, fmt.Sprintf("(%s_%d %s)", name, i, vc.sortOf(u.At(i).Type())))
	}
	vc.decls = append(vc.decls, fmt.Sprintf("(declare-datatypes ((%s 0)) (((mk_%s %s))))", name, name, strings.Join(fields, " ")))
	return name
}

// intLit renders an integer constant of Go type t.
func (vc *VC) intLit(v *big.Int, t types.Type) Term {
	if vc.bv {
		w, _, ok := intInfo(t)
		if !ok {
			w = 64
		}
		m := new(big.Int).Exp(two, big.NewInt(int64(w)), nil)
		x := new(big.Int).Mod(v, m)
		return Term{fmt.Sprintf("(_ bv%s %d)", x.String(), w), fmt.Sprintf("(_ BitVec %d)", w), t}
	}
	if v.Sign() < 0 {
		return Term{fmt.Sprintf("(- %s)", new(big.Int).Neg(v).String()), "Int", t}
	}
	return Term{v.String(), "Int", t}
}

func (vc *VC) ilit(n int64) string {
	if vc.bv {
		return fmt.Sprintf("(_ bv%d 64)", n)
	}
	if n < 0 {
		return fmt.Sprintf("(- %d)", -n)
	}
	return fmt.Sprintf("%d", n)
}

// zero value of a Go type.
func (vc *VC) zero(t types.Type) Term {
	s := vc.sortOf(t)
	switch u := t.Underlying().(type) {
	case *types.Basic:
		switch {
		case u.Info()&types.IsBoolean != 0:
			return Term{"false", s, t}
		case u.Info()&types.IsInteger != 0:
			return vc.intLit(big.NewInt(0), t)
		case u.Info()&types.IsString != 0:
			return Term{"str_empty", s, t}
		case u.Info()&types.IsFloat != 0:
			return Term{"f64_zero", s, t}
		}
		return Term{"0", s, t}
	case *types.Slice:
		return Term{vc.mkSlice("0", vc.ilit(0), vc.ilit(0), vc.ilit(0)), s, t}
	case *types.Array:
		return Term{fmt.Sprintf("((as const %s) %s)", s, vc.zero(u.Elem()).S), s, t}
	case *types.Struct:
		if u.NumFields() == 0 {
			return Term{"mk_" + s, s, t}
		}
		var parts []string
		for i := 0; i < u.NumFields(); i++ {
			parts = append(parts, vc.zero(u.Field(i).Type()).S)
		}
		return Term{fmt.Sprintf("(mk_%s %s)", s, strings.Join(parts, " ")), s, t}
	}
	return Term{"0", s, t}
}

func (vc *VC) mkSlice(ref, off, ln, cp string) string {
	return fmt.Sprintf("(mk_Slice %s %s %s %s)", ref, off, ln, cp)
}

// wf returns a typing/well-formedness fact for value x of Go type t ("" if none).
func (vc *VC) wf(t types.Type, x string) string {
	return vc.wfDepth(t, x, 0)
}

func (vc *VC) wfDepth(t types.Type, x string, depth int) string {
	if depth > 4 {
		return ""
	}
	switch u := t.Underlying().(type) {
	case *types.Basic:
		if u.Info()&types.IsInteger != 0 && !vc.bv {
			w, signed, _ := intInfo(t)
			if signed {
				return fmt.Sprintf("(and (<= (- %s) %s) (< %s %s))", pow2(w-1), x, x, pow2(w-1))
			}
			return fmt.Sprintf("(and (<= 0 %s) (< %s %s))", x, x, pow2(w))
		}
		if u.Info()&types.IsString != 0 {
			return fmt.Sprintf("(<= 0 (str_len %s))", x)
		}
	case *types.Pointer, *types.Interface, *types.Chan, *types.Map, *types.Signature:
		return fmt.Sprintf("(<= 0 %s)", x)
	case *types.Slice:
		if vc.bv {
			return fmt.Sprintf("(and (<= 0 (sl_ref %s)) (bvule (sl_len %s) (sl_cap %s)) (bvult (bvadd (sl_off %s) (sl_cap %s)) #x0000ffffffffffff) (bvult (sl_off %s) #x0000ffffffffffff) (bvult (sl_cap %s) #x0000ffffffffffff))", x, x, x, x, x, x, x)
		}
		return fmt.Sprintf("(and (<= 0 (sl_ref %s)) (<= 0 (sl_off %s)) (<= 0 (sl_len %s)) (<= (sl_len %s) (sl_cap %s)) (< (+ (sl_off %s) (sl_cap %s)) %s) (=> (= (sl_ref %s) 0) (= (sl_cap %s) 0)))", x, x, x, x, x, x, x, pow2(62), x, x)
	case *types.Struct:
		s := vc.sortOf(t)
		var parts []string
		for i := 0; i < u.NumFields(); i++ {
			f := u.Field(i)
			if p := vc.wfDepth(f.Type(), fmt.Sprintf("(%s_%s %s)", s, f.Name(), x), depth+1); p != "" {
				parts = append(parts, p)
			}
		}
		if len(parts) == 0 {
			return ""
		}
		if len(parts) == 1 {
			return parts[0]
		}
		return "(and " + strings.Join(parts, " ") + ")"
	case *types.Tuple:
		if u.Len() == 0 {
			return ""
		}
		s := vc.sortOf(t)
		var parts []string
		for i := 0; i < u.Len(); i++ {
			if p := vc.wfDepth(u.At(i).Type(), fmt.Sprintf("(%s_%d %s)", s, i, x), depth+1); p != "" {
				parts = append(parts, p)
			}
		}
		if len(parts) == 0 {
			return ""
		}
		return "(and " + strings.Join(parts, " ") + ")"
	}
	return ""
}

// refsBelow: facts "every slice/pointer/chan/map held directly in struct value x is below alloc".
func (vc *VC) refsBelow(t types.Type, x, alloc string, depth int) []string {
	if depth > 3 {
		return nil
	}
	var out []string
	switch u := t.Underlying().(type) {
	case *types.Pointer, *types.Chan, *types.Map:
		out = append(out, fmt.Sprintf("(< %s %s)", x, alloc))
	case *types.Slice:
		out = append(out, fmt.Sprintf("(< (sl_ref %s) %s)", x, alloc))
	case *types.Struct:
		s := vc.sortOf(t)
		for i := 0; i < u.NumFields(); i++ {
			f := u.Field(i)
			out = append(out, vc.refsBelow(f.Type(), fmt.Sprintf("(%s_%s %s)", s, f.Name(), x), alloc, depth+1)...)
		}
	}
	return out
}

func smtIdent(s string) string {
	r := strings.NewReplacer("/", "_", ".", "_", "*", "P", "(", "", ")", "", " ", "_", "$", "S", "#", "_", "[", "_", "]", "_", ",", "_", "-", "_", "<", "_", ">", "_", "\"", "", "'", "", ":", "_", "{", "_", "}", "_", ";", "_", "%", "_")
	return r.Replace(s)
}
