package main

import (
	"encoding/json"
	"fmt"
	"os"
	"os/exec"
	"path/filepath"
	"sort"
	"strconv"
	"strings"
	"sync"
	"time"

	"golang.org/x/tools/go/ssa"
)

type InvPass struct {
	Tags      string   `json:"tags"`
	Packages  []string `json:"packages"`
	Functions []string `json:"functions"`
}

type InvProp struct {
	Passes      []InvPass `json:"passes"`
	TrustedBase []string  `json:"trusted_base"`
	Assumptions []string  `json:"assumptions"`
	Bounded     []BoundedCmd `json:"bounded_cmds"`
	Scans       []ScanSpec `json:"scans"`
}

// BoundedCmd: a bounded (or, where the domain is finite, exhaustive) evaluation that stands behind a
// trusted lemma; reported under coverage.bounded, never counted as a discharged obligation.
type BoundedCmd struct {
	Name  string `json:"name"`
	What  string `json:"what"`
	Bound string `json:"bound"`
	Cmd   string `json:"cmd"`
}

type KnownFinding struct {
	Property string `json:"property"`
	Function string `json:"function"`
	Kind     string `json:"kind"`
	Clause   string `json:"clause"`
	Except   string `json:"except"`
	What     string `json:"what"`
}

type KnownFindings struct {
	Findings []*KnownFinding `json:"findings"`
	Fixed    []string        `json:"fixed"`
}

var verifDir = "/verif"

func loadInventory() (map[string]*InvProp, error) {
	b, err := os.ReadFile(filepath.Join(verifDir, "spec", "inventory.json"))
	if err != nil {
		return nil, err
	}
	inv := map[string]*InvProp{}
	if err := json.Unmarshal(b, &inv); err != nil {
		return nil, err
	}
	return inv, nil
}

func loadKnownFindings() *KnownFindings {
	kf := &KnownFindings{}
	b, err := os.ReadFile(filepath.Join(verifDir, "known_findings.json"))
	if err == nil {
		json.Unmarshal(b, kf)
	}
	return kf
}

var verbose bool
var activeKF *KnownFindings
var activeProp string
var activeRepo = "/repo"
var mustFail []seedResult
var replaysDone int

func maxReplays() int {
	if v := os.Getenv("RVC_MAX_REPLAYS"); v != "" {
		if n, err := strconv.Atoi(v); err == nil {
			return n
		}
	}
	return 12
}

type checkResult struct {
	vcs        []*VC
	missing    []string
	loadErr    string
	wall       float64
}

func cmdCheck(args []string) int {
	if len(args) < 1 {
		usage()
	}
	prop := args[0]
	tier := os.Getenv("VERIF_TIER")
	if tier == "" {
		tier = "quick"
	}
	repo := repoDirDefault()
	only := ""
	keep := false
	for i := 1; i < len(args); i++ {
		switch args[i] {
		case "--tier":
			i++
			tier = args[i]
		case "--repo":
			i++
			repo = args[i]
		case "--only":
			i++
			only = args[i]
		case "--keep":
			keep = true
		case "-v", "--verbose":
			verbose = true
		case "--verif":
			i++
			verifDir = args[i]
		}
	}
	if d := os.Getenv("RVC_VERIF"); d != "" {
		verifDir = d
	}
	seed := 0
	if s := os.Getenv("VERIF_SEED"); s != "" {
		seed, _ = strconv.Atoi(s)
	}
	t0 := time.Now()
	inv, err := loadInventory()
	if err != nil {
		fmt.Fprintln(os.Stderr, "inventory:", err)
		return 2
	}
	ip := inv[prop]
	if ip == nil {
		fmt.Fprintf(os.Stderr, "property %s has no inventory (not claimed)\n", prop)
		return 2
	}
	activeKF = loadKnownFindings()
	activeProp = prop
	activeRepo = repo
	work, _ := os.MkdirTemp("", "rvc-"+prop+"-")
	if !keep {
		defer os.RemoveAll(work)
	} else {
		fmt.Fprintln(os.Stderr, "work dir:", work)
	}
	cfg := solveCfg{workDir: work, incTimeoutMs: 4000, raceTimeoutS: 90, keep: keep}
	if tier == "thorough" {
		cfg.incTimeoutMs = 20000
		cfg.raceTimeoutS = 300
	}
	if v := os.Getenv("RVC_RACE_TIMEOUT"); v != "" {
		// used by the must-fail corpus: on a seeded change many obligations fail, and waiting the full
		// limit for each of them only delays the verdict "detected"
		if n, err := strconv.Atoi(v); err == nil && n > 0 {
			cfg.raceTimeoutS = n
		}
	}
	res := runProperty(prop, ip, repo, only, cfg)
	if tier == "thorough" && only == "" && repo == repoDirDefault() && os.Getenv("RVC_NO_SEEDS") == "" {
		// the must-fail corpus for this property (each run checks a scratch worktree, never /repo)
		mustFail, _ = runSeeds([]string{prop}, 2)
	}
	res.wall = time.Since(t0).Seconds()
	return report(prop, tier, seed, ip, res, only != "")
}

func runProperty(prop string, ip *InvProp, repo, only string, cfg solveCfg) *checkResult {
	res := &checkResult{}
	specs, err := loadSpecs(verifDir, repo)
	if err != nil {
		res.loadErr = "contract files: " + err.Error()
		return res
	}
	for _, pass := range ip.Passes {
		tl := time.Now()
		w, err := loadWorld(repo, pass.Packages, pass.Tags)
		if os.Getenv("RVC_TIMING") != "" {
			fmt.Fprintf(os.Stderr, "timing: loaded %d packages in %.1fs\n", len(pass.Packages), time.Since(tl).Seconds())
		}
		if err != nil {
			res.loadErr = err.Error()
			return res
		}
		w.Specs = specs
		fns := w.allFunctions()
		want := map[string]bool{}
		for _, f := range pass.Functions {
			want[f] = true
		}
		// every contract in the loaded packages that serves this property
		if pass.Tags == "" {
			for key, fs := range specs.Funcs {
				if fs.Trusted || fs.IsIface {
					continue
				}
				if contains(fs.Props, prop) {
					if _, ok := fns[key]; ok {
						want[key] = true
					}
				}
			}
		}
		var keys []string
		for k := range want {
			keys = append(keys, k)
		}
		sort.Strings(keys)
		var mu sync.Mutex
		var wg sync.WaitGroup
		sem := make(chan struct{}, 12)
		// generation is sequential (go/types and our tables are not concurrency-safe); solving is parallel
		for _, key := range keys {
			if only != "" && key != only {
				continue
			}
			fn := fns[key]
			fs := specs.Funcs[key]
			if fn == nil || fs == nil {
				res.missing = append(res.missing, key)
				continue
			}
			tg := time.Now()
			vc := verifyFunction(w, fn, fs)
			if os.Getenv("RVC_TIMING") != "" {
				fmt.Fprintf(os.Stderr, "timing: generated %s in %.1fs (%d obligations)\n", key, time.Since(tg).Seconds(), len(vc.obligs))
			}
			wg.Add(1)
			go func(vc *VC) {
				defer wg.Done()
				sem <- struct{}{}
				defer func() { <-sem }()
				ts := time.Now()
				solveVC(vc, cfg)
				if os.Getenv("RVC_TIMING") != "" {
					fmt.Fprintf(os.Stderr, "timing: solved %s in %.1fs\n", vc.name, time.Since(ts).Seconds())
				}
				mu.Lock()
				res.vcs = append(res.vcs, vc)
				mu.Unlock()
			}(vc)
		}
		wg.Wait()
		if pass.Tags == "" && only == "" {
			for _, sc := range ip.Scans {
				f := scanFuncs[sc.Name]
				if f == nil {
					res.missing = append(res.missing, "scan:"+sc.Name)
					continue
				}
				for _, key := range sc.Functions {
					fn := fns[key]
					if fn == nil {
						continue // not in this pass's packages
					}
					res.vcs = append(res.vcs, f(w, fn))
				}
			}
		}
	}
	sort.Slice(res.vcs, func(i, j int) bool { return res.vcs[i].name < res.vcs[j].name })
	return res
}

func relevant(ob *Oblig, prop string) bool {
	if len(ob.Tags) == 0 {
		return true
	}
	return contains(ob.Tags, prop)
}

type evFunc struct {
	Name        string   `json:"name"`
	Obligations int      `json:"obligations"`
	Discharged  int      `json:"discharged"`
	Covers      int      `json:"covers"`
	Solver      string   `json:"solver"`
	Seconds     float64  `json:"seconds"`
	Unmodelled  []string `json:"unmodelled,omitempty"`
	WeakCallees []string `json:"weak_callees,omitempty"`
}

func report(prop, tier string, seed int, ip *InvProp, res *checkResult, partial bool) int {
	type viol struct {
		id, file string
		nofail   bool
	}
	var viols []viol
	os.MkdirAll(filepath.Join(verifDir, "replays"), 0o755)
	os.MkdirAll(filepath.Join(verifDir, "evidence"), 0o755)
	addViol := func(id string, payload map[string]interface{}, nofail bool) {
		fn := filepath.Join(verifDir, "replays", fmt.Sprintf("%s-%s.json", prop, smtIdent(id)))
		payload["property"] = prop
		payload["obligation"] = id
		b, _ := json.MarshalIndent(payload, "", " ")
		os.WriteFile(fn, b, 0o644)
		viols = append(viols, viol{id, fn, nofail})
	}
	if res.loadErr != "" {
		addViol("load", map[string]interface{}{"error": res.loadErr, "note": "the repository or its contract files could not be loaded; nothing was proved"}, true)
	}
	for _, m := range res.missing {
		addViol("missing:"+m, map[string]interface{}{"error": "function or contract listed in the inventory not found: " + m}, true)
	}
	total, discharged, covers, coversOK := 0, 0, 0, 0
	var funcs []evFunc
	var samples []string
	undis := []string{}
	var kfLines []string
	trusted := map[string]bool{}
	notes := map[string]bool{}
	solverSecs := 0.0
	for _, vc := range res.vcs {
		ef := evFunc{Name: vc.name, Unmodelled: vc.unsup}
		for wk := range vc.weak {
			ef.WeakCallees = append(ef.WeakCallees, wk)
		}
		sort.Strings(ef.WeakCallees)
		for c := range vc.callees {
			if fs := vc.db.Funcs[c]; fs != nil && (fs.Trusted || fs.IsIface) {
				kind := "trusted contract"
				if fs.IsIface && !fs.Trusted {
					kind = "interface contract (assumed at call sites; implementations checked separately where listed)"
				}
				trusted[fmt.Sprintf("%s: %s", kind, c)] = true
			} else if fs == nil {
				trusted[c] = true
			}
		}
		for n := range vc.notes {
			if !strings.HasPrefix(n, "\x00") {
				notes[n] = true
			}
		}
		solverCount := map[string]int{}
		for _, u := range vc.unsup {
			addViol(vc.name+"#unsupported", map[string]interface{}{"function": vc.name, "error": "construct outside the verified subset (fails closed): " + u, "all": vc.unsup}, true)
			break
		}
		anyRelevant := 0
		scriptErr := false
		for _, u := range vc.unsup {
			if strings.HasPrefix(u, "SMT script error") {
				scriptErr = true
			}
		}
		for _, ob := range vc.obligs {
			if verbose {
				fmt.Printf("  %-9s %-22s %6.2fs %s [%s] %s %s\n", ob.Status, ob.Solver, ob.Seconds, ob.ID, ob.Pos, truncate(ob.Desc, 100), truncate(ob.Output, 80))
			}
			solverSecs += ob.Seconds
			if ob.IsCover {
				covers++
				ef.Covers++
				if ob.Status == "proved" {
					coversOK++
				}
				continue
			}
			if !relevant(ob, prop) {
				continue
			}
			anyRelevant++
			total++
			ef.Obligations++
			solverCount[ob.Solver]++
			ef.Seconds += ob.Seconds
			if ob.Status == "proved" {
				discharged++
				ef.Discharged++
				if len(samples) < 12 && (ob.Kind == "ensures" || ob.Kind == "invariant-preserved" || ob.Kind == "assert" || len(samples) < 4) {
					samples = append(samples, fmt.Sprintf("%s [%s] %s (unsat, %s)", ob.ID, ob.Pos, truncate(ob.Desc, 160), ob.Solver))
				}
				if ob.KnownFinding != nil {
					// is the known failing region still failing?
					if kfStillFails(vc, ob) {
						kfLines = append(kfLines, fmt.Sprintf("KNOWN-FINDING: property=%s %s", prop, ob.KnownFinding.What))
					}
				}
				continue
			}
			undis = append(undis, ob.ID)
			if scriptErr {
				continue
			}
			payload := map[string]interface{}{"function": vc.name, "kind": ob.Kind, "description": ob.Desc, "position": ob.Pos,
				"status": ob.Status, "solver_output": ob.Output, "goal": ob.Goal, "reach": ob.Reach}
			if ob.Clause != nil {
				payload["clause"] = ob.Clause.Text
				payload["contract_file"] = fmt.Sprintf("%s:%d", ob.Clause.File, ob.Clause.Line)
			}
			nofail := true
			if ob.Status == "refuted" {
				payload["model"] = modelSummary(ob.Model, 200)
				if ob.Kind == "scan" {
					payload["replay"] = "not applicable: a syntactic condition on the code's shape has no input to replay"
				} else if replaysDone < maxReplays() {
					replaysDone++
					rp := tryReplay(vc, ob, payload)
					nofail = !rp
				} else {
					payload["replay"] = fmt.Sprintf("not attempted: more than %d refuted obligations in this run (the first ones were replayed)", maxReplays())
				}
			}
			addViol(ob.ID, payload, nofail)
		}
		best := ""
		for s, n := range solverCount {
			if best == "" || n > solverCount[best] {
				best = s
			}
		}
		ef.Solver = best
		if anyRelevant == 0 && len(vc.unsup) == 0 {
			addViol(vc.name+"#vacuous", map[string]interface{}{"function": vc.name, "error": "function in the inventory generated zero obligations for this property"}, true)
		}
		// vacuity: every return and every loop body must be reachable under the contracts in force
		// (a contradictory precondition, invariant or callee contract shows up as an unreachable cover);
		// exits that are unreachable for a good reason are declared with `unreachable_ok N`.
		if ef.Covers > 0 && !scriptErr {
			dead := 0
			var deadDesc []string
			for _, ob := range vc.obligs {
				if ob.IsCover && ob.Status == "refuted" {
					dead++
					deadDesc = append(deadDesc, ob.Desc)
				}
			}
			allowed := 0
			if vc.spec != nil {
				allowed = vc.spec.UnreachableOK
			}
			if dead > allowed {
				addViol(vc.name+"#vacuous", map[string]interface{}{"function": vc.name, "unreachable": deadDesc, "allowed": allowed,
					"error": "program points are unreachable under the contracts (contradictory precondition, invariant or callee contract, or dead code): the proofs after them are vacuous"}, true)
			}
		}
		funcs = append(funcs, ef)
	}
	var bounded []map[string]interface{}
	if !partial {
		for _, bc := range ip.Bounded {
			t0 := time.Now()
			cmd := exec.Command("sh", "-c", bc.Cmd)
			cmd.Dir = verifDir
			cmd.Env = append(os.Environ(), "GOFLAGS=-mod=mod", "GOPROXY=off", "GOSUMDB=off", "GOTOOLCHAIN=local", "RVC_REPO="+activeRepo)
			out, err := cmd.CombinedOutput()
			cases := 0
			for _, l := range strings.Split(string(out), "\n") {
				if strings.HasPrefix(l, "cases=") {
					cases, _ = strconv.Atoi(strings.TrimPrefix(l, "cases="))
				}
			}
			bounded = append(bounded, map[string]interface{}{"what": bc.What, "bound": bc.Bound, "cases": cases, "ok": err == nil, "seconds": time.Since(t0).Seconds(), "cmd": bc.Cmd})
			if err != nil {
				addViol("bounded:"+bc.Name, map[string]interface{}{"error": "bounded evaluation behind a trusted lemma failed", "what": bc.What, "output": truncate(string(out), 2000)}, true)
			}
		}
	}
	for _, t := range ip.TrustedBase {
		trusted[t] = true
	}
	tb := []string{"rvc VC generator over go/ssa (self-built, unverified; guarded by the must-fail corpus and cover obligations)", "go/ssa + go/types (golang.org/x/tools v0.29.0)", "SMT solvers: z3 5.1.0 (z3-new), z3 4.8.12, cvc5 1.0.x"}
	for t := range trusted {
		tb = append(tb, t)
	}
	sort.Strings(tb[3:])
	assumptions := append([]string{"amd64: int is 64 bit"}, ip.Assumptions...)
	for n := range notes {
		assumptions = append(assumptions, n)
	}
	sort.Strings(assumptions)
	if len(samples) == 0 {
		samples = []string{"(no obligation discharged)"}
	}
	sort.Strings(kfLines)
	kfLines = uniq(kfLines)
	ev := map[string]interface{}{
		"property_id": prop, "tier": tier, "seed": seed, "level": "proof", "wall_s": res.wall, "violations": len(viols),
		"coverage": map[string]interface{}{
			"obligations": total, "discharged": discharged,
			"checker_cmd":  fmt.Sprintf("./bin/rvc check %s --tier %s", prop, tier),
			"trusted_base": tb,
			"functions":    funcs,
			"covers":       map[string]int{"checked": covers, "reachable": coversOK},
			"undischarged": undis,
			"known_findings": kfLines,
			"samples":      samples,
			"solver_seconds": solverSecs,
			"back_end":     "SMT (z3-new incremental per function; z3-new / z3 / cvc5 raced on what remains)",
			"bounded":      bounded,
			"must_fail":    mustFail,
		},
		"assumptions": assumptions,
	}
	if !partial {
		b, _ := json.MarshalIndent(ev, "", " ")
		os.WriteFile(filepath.Join(verifDir, "evidence", prop+".json"), b, 0o644)
	}
	for _, l := range kfLines {
		fmt.Println(l)
	}
	for _, r := range mustFail {
		if !r.OK {
			fmt.Printf("SELFTEST-MISS: seeded change %s (breaks %s) is no longer detected by this check\n", r.Seed, r.Property)
		}
	}
	fmt.Printf("%s: %d obligations, %d discharged, %d functions, covers %d/%d, %.1fs\n", prop, total, discharged, len(funcs), coversOK, covers, res.wall)
	if len(viols) == 0 {
		return 0
	}
	seen := map[string]bool{}
	for _, v := range viols {
		if seen[v.file] {
			continue
		}
		seen[v.file] = true
		if v.nofail {
			fmt.Printf("VIOLATION property=%s replay=%s obligation=%s no-failing-input-found\n", prop, v.file, v.id)
		} else {
			fmt.Printf("VIOLATION property=%s replay=%s obligation=%s\n", prop, v.file, v.id)
		}
	}
	return 1
}

func uniq(xs []string) []string {
	var out []string
	for i, x := range xs {
		if i == 0 || x != xs[i-1] {
			out = append(out, x)
		}
	}
	return out
}

func modelSummary(out string, maxLines int) string {
	lines := strings.Split(out, "\n")
	if len(lines) > maxLines {
		lines = lines[:maxLines]
	}
	return strings.Join(lines, "\n")
}

// kfStillFails asks whether the known failing region still violates the clause.
func kfStillFails(vc *VC, ob *Oblig) bool {
	save := ob.Except
	goal := ob.Goal
	// reach ∧ except ∧ ¬goal satisfiable?
	ob2 := *ob
	ob2.Except = ""
	ob2.Goal = fmt.Sprintf("(=> %s %s)", save, goal)
	work, _ := os.MkdirTemp("", "rvc-kf-")
	defer os.RemoveAll(work)
	raceOne(vc, &ob2, filepath.Join(work, "kf"), solveCfg{workDir: work, raceTimeoutS: 10})
	return ob2.Status == "refuted"
}

// findKF matches an obligation under construction against the known-findings file.
func (vc *VC) findKF(kind string, cl *Clause, desc string) *KnownFinding {
	if activeKF == nil {
		return nil
	}
	for _, k := range activeKF.Findings {
		if k.Function != vc.name || k.Kind != kind {
			continue
		}
		if k.Property != "" && k.Property != activeProp {
			continue
		}
		if cl != nil && k.Clause == cl.Text {
			return k
		}
		if cl == nil && k.Clause != "" && strings.Contains(desc, k.Clause) {
			return k
		}
	}
	return nil
}

var _ *ssa.Function
