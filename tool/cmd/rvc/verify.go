package main

import (
	"fmt"
	"os"
	"runtime/debug"
	"go/ast"
	"go/constant"
	"go/token"
	"go/types"
	"math/big"
	"sort"
	"strings"

	"golang.org/x/tools/go/ssa"
)

func preludeFor(bv bool) string {
	if bv {
		return `(declare-datatypes ((Slice 0)) (((mk_Slice (sl_ref Int) (sl_off (_ BitVec 64)) (sl_len (_ BitVec 64)) (sl_cap (_ BitVec 64))))))
(declare-datatypes ((Unit 0)) (((unit))))
(declare-sort Str 0)
(declare-fun str_len (Str) Int)
(declare-const str_empty Str)
(assert (= (str_len str_empty) 0))
(declare-fun str_at (Str (_ BitVec 64)) (_ BitVec 8))
(declare-fun str_cat (Str Str) Str)
(declare-sort F64 0)
(declare-const f64_zero F64)
(declare-fun dyntype (Int) Int)
(define-fun sentinel_of ((i Int)) Int (+ 900000000 i))
(declare-sort Bytes 0)
(declare-fun bytes_of ((Array Int Int) Int Int) Bytes)
(declare-fun bytes_len (Bytes) Int)
(declare-fun bitand_int (Int Int) Int)
(declare-fun bitor_int (Int Int) Int)
(declare-fun bitxor_int (Int Int) Int)
(declare-fun pow2 (Int) Int)
`
	}
	var sb strings.Builder
	sb.WriteString(`(declare-datatypes ((Slice 0)) (((mk_Slice (sl_ref Int) (sl_off Int) (sl_len Int) (sl_cap Int)))))
(declare-datatypes ((Unit 0)) (((unit))))
(declare-sort Str 0)
(declare-fun str_len (Str) Int)
(declare-const str_empty Str)
(assert (= (str_len str_empty) 0))
(declare-fun str_at (Str Int) Int)
(declare-fun str_cat (Str Str) Str)
(declare-fun str_sub (Str Int Int) Str)
(declare-fun str_arr (Str) (Array Int Int))
(declare-fun str_of ((Array Int Int) Int Int) Str)
(declare-sort F64 0)
(declare-const f64_zero F64)
(declare-fun f64_of_int (Int) F64)
(declare-fun int_of_f64 (F64) Int)
(declare-fun f64_add (F64 F64) F64)
(declare-fun f64_sub (F64 F64) F64)
(declare-fun f64_mul (F64 F64) F64)
(declare-fun f64_div (F64 F64) F64)
(declare-fun f64_lt (F64 F64) Bool)
(declare-fun f64_le (F64 F64) Bool)
(declare-fun f64_gt (F64 F64) Bool)
(declare-fun f64_ge (F64 F64) Bool)
(declare-fun f32_round (F64) F64)
(declare-fun dyntype (Int) Int)
(define-fun sentinel_of ((i Int)) Int (+ 900000000 i))
(define-fun go_div ((a Int) (b Int)) Int (ite (>= a 0) (ite (> b 0) (div a b) (- (div a (- b)))) (ite (> b 0) (- (div (- a) b)) (div (- a) (- b)))))
(define-fun go_rem ((a Int) (b Int)) Int (- a (* b (go_div a b))))
(declare-fun bitand_int (Int Int) Int)
(declare-fun bitor_int (Int Int) Int)
(declare-fun bitxor_int (Int Int) Int)
(declare-fun bitandnot_int (Int Int) Int)
(declare-fun shl_int (Int Int) Int)
(declare-fun shr_int (Int Int) Int)
(declare-sort Bytes 0)
(declare-fun bytes_of ((Array Int Int) Int Int) Bytes)
(declare-fun bytes_len (Bytes) Int)
`)
	sb.WriteString("(define-fun pow2 ((k Int)) Int ")
	for i := 0; i < 64; i++ {
		fmt.Fprintf(&sb, "(ite (= k %d) %s ", i, pow2(i))
	}
	sb.WriteString("0")
	sb.WriteString(strings.Repeat(")", 64))
	sb.WriteString(")\n")
	return sb.String()
}

// allocatesArrays: fn has a local array variable or makes a slice.
func allocatesArrays(fn *ssa.Function) bool {
	for _, b := range fn.Blocks {
		for _, ins := range b.Instrs {
			switch v := ins.(type) {
			case *ssa.MakeSlice:
				return true
			case *ssa.Alloc:
				if _, ok := v.Type().Underlying().(*types.Pointer).Elem().Underlying().(*types.Array); ok {
					return true
				}
			}
		}
	}
	return false
}

// verifyFunction generates all obligations of one function under contract.
func verifyFunction(w *World, fn *ssa.Function, spec *FuncSpec) (vc *VC) {
	vc = newVC(w, fn, spec)
	defer func() {
		if r := recover(); r != nil {
			if os.Getenv("RVC_DEBUG") != "" {
				debug.PrintStack()
			}
			vc.unsupportedf("internal error: %v", r)
		}
	}()
	fr := vc.newFrame(fn, nil)
	fr.spec = spec
	fr.isTop = true
	vc.topFrame = fr
	fr.entry = newState()
	curFrameForDiv = fr
	st := newState()
	vc.allocComp()
	vc.assume(fmt.Sprintf("(> %s 0)", compInit("$alloc")))
	fr.panicComp()
	vc.assume(fmt.Sprintf("(= %s 0)", compInit("$panic")))
	// parameters
	for i, p := range fn.Params {
		s := vc.sortOf(p.Type())
		n := "p_" + smtIdent(p.Name())
		if p.Name() == "" || p.Name() == "_" {
			n = fmt.Sprintf("p_arg%d", i)
		}
		vc.declare(n, s)
		vc.assume(vc.wf(p.Type(), n))
		fr.vals[p] = Term{n, s, p.Type()}
		switch p.Type().Underlying().(type) {
		case *types.Pointer:
			vc.assume(fmt.Sprintf("(< %s %s)", n, compInit("$alloc")))
			if i == 0 && fn.Signature.Recv() != nil {
				vc.assume(fmt.Sprintf("(> %s 0)", n)) // pointer receivers are non-nil (checked at call sites)
				vc.note("pointer receivers are non-nil (obligation at every static call site)")
			}
		case *types.Slice:
			vc.assume(fmt.Sprintf("(< (sl_ref %s) %s)", n, compInit("$alloc")))
		case *types.Chan, *types.Map:
			vc.assume(fmt.Sprintf("(< %s %s)", n, compInit("$alloc")))
		case *types.Struct:
			// every reference held in a struct passed by value was allocated before entry
			// (stated only where it can matter: the function creates arrays of its own that the
			// parameter's slices have to be told apart from)
			if !allocatesArrays(fn) {
				break
			}
			for _, f := range vc.refsBelow(p.Type(), n, compInit("$alloc"), 0) {
				vc.assume(f)
			}
		}
		if vc.isPooledPtr(p.Type()) {
			// pooled parameters are owned on entry (obligation at every call site)
			vc.assume(fmt.Sprintf("(or (= %s 0) (select %s %s))", n, compInit(vc.ownedComp()), n))
		}
	}
	// captured variables of a closure verified on its own: arbitrary cells
	for _, fv := range fn.FreeVars {
		pt, ok := fv.Type().Underlying().(*types.Pointer)
		if !ok {
			vc.unsupportedf("free variable %s is not a cell", fv.Name())
			continue
		}
		n := "fv_" + smtIdent(fv.Name())
		vc.declare(n, "Int")
		vc.assume(fmt.Sprintf("(and (> %s 0) (< %s %s))", n, n, compInit("$alloc")))
		fr.freeL[fv] = &LVal{Comp: vc.memComp(pt.Elem()), Ref: n, T: pt.Elem()}
	}
	fr.curReach = "true"
	fr.letVals = map[string]Term{}
	for _, l := range spec.Lets {
		c0 := fr.specCtx(st, st, fn.Blocks[0], 0)
		t, err := c0.eval(l.E)
		if err != nil {
			vc.unsupportedf("let %s: %v", l.Text, err)
			continue
		}
		n := vc.fresh("let_" + l.Name)
		vc.define(n, t.Sort, t.S)
		fr.letVals[l.Name] = Term{n, t.Sort, t.T}
	}
	ctx := fr.specCtx(st, st, fn.Blocks[0], 0)
	for _, rq := range spec.Requires {
		g, err := ctx.evalBool(rq.E)
		if err != nil {
			vc.unsupportedf("requires: %v", err)
			continue
		}
		vc.assume(g)
	}
	for _, ap := range spec.AssumePre {
		g, err := ctx.evalBool(ap.E)
		if err != nil {
			vc.unsupportedf("assume_pre: %v", err)
			continue
		}
		vc.assume(g)
		vc.note("modelling assumption inside %s: %s", vc.name, ap.Text)
	}
	vc.tableFacts()
	for _, lm := range spec.Lemmas {
		g, err := ctx.evalBool(lm.E)
		if err != nil {
			vc.unsupportedf("lemma %q: %v", lm.Text, err)
			continue
		}
		// lemmas are proved, not assumed downstream (they may be quantified)
		n := len(vc.steps)
		vc.oblige("lemma", fr.tagsFor(lm.Tags), "true", g, "lemma: "+lm.Text, fn.Pos(), lm)
		vc.steps = vc.steps[:n+1]
	}
	fr.run(st, "true")
	// an `at` clause that applies to no program point checks nothing: fail closed (a renamed callee, a
	// wrong ordinal, a pattern that never matched would otherwise silently drop the clause)
	for _, at := range spec.Ats {
		if !vc.atMatched[at] {
			txt := ""
			if at.Clause != nil {
				txt = at.Clause.Text
			} else if at.Ghost != nil {
				txt = "ghost " + at.Ghost.Text
			}
			vc.unsupportedf("at-clause `%s#%d: %s` matches no program point of %s", at.Callee, at.Ord, truncate(txt, 80), vc.name)
		}
	}
	// exits
	nret := 0
	for _, ex := range fr.exits {
		if ex.reach == "false" {
			continue
		}
		switch ex.kind {
		case "return":
			nret++
			ctx := fr.specCtx(ex.st, fr.entry, nil, 0)
			rn := resultNames(spec, fn.Signature)
			for i, r := range ex.results {
				if i < len(rn) && rn[i] != "" && rn[i] != "_" {
					ctx.env[rn[i]] = r
				}
				ctx.env[fmt.Sprintf("result%d", i)] = r
				if i == 0 {
					ctx.env["result"] = r
				}
			}
			if len(spec.ReturnGhosts) > 0 {
				ex.st = ex.st.clone()
				ctx.st = ex.st
				fr.applyGhosts(spec.ReturnGhosts, ctx, ex.st)
			}
			for _, en := range spec.Ensures {
				g, err := ctx.evalBool(en.E)
				if err != nil {
					vc.unsupportedf("ensures %q: %v", en.Text, err)
					continue
				}
				vc.oblige("ensures", fr.tagsFor(en.Tags), ex.reach, g, "postcondition: "+en.Text, ex.pos, en)
			}
			for _, ik := range spec.Implements {
				fr.checkImplements(ik, ex)
			}
			// frame: ghost state not listed under `modifies` is unchanged (callers rely on it)
			declared := map[string]bool{}
			for _, m := range spec.Modifies {
				for _, c := range vc.modCompQuiet(m, spec) {
					declared[c] = true
				}
			}
			for _, g := range vc.db.Ghosts {
				cur, changed := ex.st.m[g.Name]
				if !changed || declared[g.Name] || cur == compInit(g.Name) {
					continue
				}
				if pre, priv := vc.db.Private[g.Name]; priv && !hasAnyPrefix(spec.Pkg, pre) {
					continue // private ghost state of another package: no contract here can mention it
				}
				if e0, ok := fr.entry.m[g.Name]; ok && e0 == cur {
					continue
				}
				vc.oblige("frame", fr.autoTags(), ex.reach, fmt.Sprintf("(= %s %s)", cur, vc.get(fr.entry, g.Name)), "ghost state "+g.Name+" is not listed under modifies and must be unchanged", ex.pos, nil)
			}
			for _, r := range ex.results {
				if r.T != nil && vc.isPooledPtr(r.T) {
					saved := fr.curReach
					fr.curReach = ex.reach
					fr.requireOwnedOrNil(r.S, "returned object", ex.pos, ex.st)
					fr.curReach = saved
				}
			}
			for _, rel := range spec.Releases {
				if t, ok := ctx.env[rel]; ok {
					vc.oblige("ownership", fr.ownTags(), ex.reach, fmt.Sprintf("(not (select %s %s))", vc.get(ex.st, vc.ownedComp()), t.S), "released object has been given up: "+rel, ex.pos, nil)
				}
			}
			// a pooled object received as a parameter is only borrowed: unless the contract says
			// `releases`, the caller still owns it afterwards (and will return it to the pool itself)
			for _, p := range fn.Params {
				if !vc.isPooledPtr(p.Type()) || contains(spec.Releases, p.Name()) {
					continue
				}
				pt := fr.val(p)
				vc.oblige("ownership", fr.ownTags(), ex.reach, fmt.Sprintf("(or (= %s 0) (select %s %s))", pt.S, vc.get(ex.st, vc.ownedComp()), pt.S), "borrowed pooled parameter "+p.Name()+" is still owned on return (not put back by the callee)", ex.pos, nil)
			}
			vc.cover(ex.reach, fmt.Sprintf("return at %s is reachable", vc.posOf(ex.pos)))
		case "panic":
			ctx := fr.specCtx(ex.st, fr.entry, nil, 0)
			for _, en := range spec.EnsuresPanic {
				g, err := ctx.evalBool(en.E)
				if err != nil {
					vc.unsupportedf("ensures_panic %q: %v", en.Text, err)
					continue
				}
				vc.oblige("ensures_panic", fr.tagsFor(en.Tags), ex.reach, g, "exceptional postcondition: "+en.Text, ex.pos, en)
			}
		}
	}
	if len(spec.Ensures2) > 0 {
		vc.relational(fr, spec)
	}
	vc.checkIfaceFrame(fn, spec)
	if spec.EffectsPrivate {
		vc.checkEffectsPrivate(fn)
	}
	// loop bodies reachable (invariants not contradictory)
	for h := range fr.loopOrd {
		if r, ok := fr.reachIn[h]; ok && r != "false" {
			for _, s := range h.Succs {
				if naturalLoop(h)[s] && s != h {
					if rr, ok := fr.reachIn[s]; ok {
						vc.cover(rr, fmt.Sprintf("body of loop %d is reachable under its invariant", fr.loopOrd[h]))
					}
				}
			}
		}
	}
	return vc
}

// tableFacts pins the contents of package-level constant tables declared `global X table`.
func (vc *VC) tableFacts() {
	for key, gs := range vc.db.Globals {
		if gs.Kind != "table" {
			continue
		}
		p := vc.w.PkgByPath[longPkg(gs.Pkg)]
		if p == nil {
			continue
		}
		sp := vc.ssaPkg(p.PkgPath)
		if sp == nil {
			continue
		}
		g, ok := sp.Members[gs.Name].(*ssa.Global)
		if !ok {
			vc.unsupportedf("table global %s not found", key)
			continue
		}
		if vc.top.Pkg == nil || vc.top.Pkg.Pkg.Path() != p.PkgPath {
			continue
		}
		if !vc.mentionsGlobal(g) {
			continue // keep the hundreds of table facts out of scripts that never read the table
		}
		if msg := vc.globalStable(g); msg != "" {
			vc.unsupportedf("global %s declared table but %s", key, msg)
			continue
		}
		init := vc.w.varInit(p.PkgPath, gs.Name)
		cl, ok := init.(*ast.CompositeLit)
		if !ok {
			vc.unsupportedf("table global %s has no composite literal initialiser", key)
			continue
		}
		comp := vc.globalComp(g)
		at, ok := g.Type().(*types.Pointer).Elem().Underlying().(*types.Array)
		if !ok {
			vc.unsupportedf("table global %s is not an array", key)
			continue
		}
		for i, el := range cl.Elts {
			tv, ok := p.TypesInfo.Types[el]
			if !ok || tv.Value == nil || tv.Value.Kind() != constant.Int {
				vc.unsupportedf("table global %s: element %d is not a constant", key, i)
				continue
			}
			bi, _ := new(big.Int).SetString(tv.Value.ExactString(), 10)
			vc.assume(fmt.Sprintf("(= (select %s %s) %s)", compInit(comp), vc.ilit(int64(i)), vc.intLit(bi, at.Elem()).S))
		}
	}
}

// globalStable checks that a global is written only by package initialisation.
func (vc *VC) globalStable(g *ssa.Global) string {
	for name, fn := range vc.w.allFunctions() {
		if fn.Pkg != g.Pkg || fn.Name() == "init" || strings.HasPrefix(fn.Name(), "init#") {
			continue
		}
		for _, b := range fn.Blocks {
			for _, ins := range b.Instrs {
				if s, ok := ins.(*ssa.Store); ok && rootGlobal(s.Addr) == g {
					return fmt.Sprintf("it is written in %s", name)
				}
				if c, ok := ins.(ssa.CallInstruction); ok {
					for _, a := range c.Common().Args {
						if rootGlobal(a) == g {
							if _, isPtr := a.Type().Underlying().(*types.Pointer); isPtr {
								return fmt.Sprintf("its address escapes in %s", name)
							}
						}
					}
				}
			}
		}
	}
	return ""
}

func rootGlobal(v ssa.Value) *ssa.Global {
	for {
		switch x := v.(type) {
		case *ssa.Global:
			return x
		case *ssa.FieldAddr:
			v = x.X
		case *ssa.IndexAddr:
			v = x.X
		default:
			return nil
		}
	}
}

// script renders the SMT-LIB text. upto < 0: incremental script with all obligations;
// otherwise the standalone query of obligation index upto (into vc.steps).
func (vc *VC) header() string {
	var sb strings.Builder
	sb.WriteString(preludeFor(vc.bv))
	for _, l := range vc.db.SMT {
		sb.WriteString(l)
		sb.WriteString("\n")
	}
	extra := vc.db.SMTInt
	if vc.bv {
		extra = vc.db.SMTBV
	}
	for _, l := range extra {
		sb.WriteString(l)
		sb.WriteString("\n")
	}
	for _, d := range vc.decls {
		sb.WriteString(d)
		sb.WriteString("\n")
	}
	if sl := vc.sentinelList(); len(sl) > 0 {
		for _, s := range sl {
			fmt.Fprintf(&sb, "(assert (> %s 0))\n", s)
			if _, ok := vc.db.Sigs["is_io_error"]; ok {
				fmt.Fprintf(&sb, "(assert (not (is_io_error %s)))\n", s)
			}
		}
	}
	return sb.String()
}

// lazyAxioms: quantified background axioms are included only when the symbol they constrain occurs,
// so that scripts without them stay in a decidable fragment (refutations then come as `sat` + model).
var lazyAxioms = []struct{ sym, ax string }{
	{"bitand_int", "(assert (forall ((a Int) (b Int)) (! (=> (and (>= a 0) (>= b 0)) (and (<= 0 (bitand_int a b)) (<= (bitand_int a b) a) (<= (bitand_int a b) b))) :pattern ((bitand_int a b)))))"},
	{"bitor_int", "(assert (forall ((a Int) (b Int)) (! (=> (and (>= a 0) (>= b 0)) (and (<= a (bitor_int a b)) (<= b (bitor_int a b)) (<= (bitor_int a b) (+ a b)))) :pattern ((bitor_int a b)))))"},
	{"bytes_len", "(assert (forall ((a (Array Int Int)) (o Int) (n Int)) (! (= (bytes_len (bytes_of a o n)) n) :pattern ((bytes_of a o n)))))"},
	{"faddr", "(assert (forall ((a Int) (b Int)) (! (> (faddr a b) 0) :pattern ((faddr a b)))))"},
	{"gaddr", "(assert (forall ((a Int)) (! (> (gaddr a) 0) :pattern ((gaddr a)))))"},
}

func (vc *VC) withAxioms(header, body string) string {
	var sb strings.Builder
	sb.WriteString(header)
	if !vc.bv {
		for _, la := range lazyAxioms {
			if strings.Contains(body, "("+la.sym+" ") {
				sb.WriteString(la.ax + "\n")
			}
		}
	}
	for _, la := range vc.db.LazySMT {
		if strings.Contains(body, la[0]) {
			sb.WriteString(la[1] + "\n")
		}
	}
	sb.WriteString(body)
	return sb.String()
}

func (vc *VC) incrementalScript(timeoutMs int) string {
	hdr := fmt.Sprintf("(set-option :timeout %d)\n", timeoutMs) + vc.header()
	return vc.withAxioms(hdr, vc.incrementalBodyFor(func(o *Oblig) bool { return !o.IsCover }))
}

// coverScript: the reachability covers only, over the quantifier-free part of the facts (fewer
// assumptions: `sat` there is decidable and means the point is reachable under every ground fact).
func (vc *VC) coverScript(timeoutMs int) string {
	hdr := fmt.Sprintf("(set-option :timeout %d)\n", timeoutMs) + vc.header()
	return dropQuantified(hdr + vc.incrementalBodyFor(func(o *Oblig) bool { return o.IsCover }))
}

func (vc *VC) incrementalBody() string { return vc.incrementalBodyFor(func(*Oblig) bool { return true }) }

// incrementalBodyFor: the incremental script restricted to the obligations selected by keep (the
// others are neither checked nor skipped as assumptions: their facts stay assumed downstream exactly
// as in the full script).
func (vc *VC) incrementalBodyFor(keep func(*Oblig) bool) string {
	var sb strings.Builder
	for _, s := range vc.steps {
		switch s.Kind {
		case sDecl:
			sb.WriteString(s.Text + "\n")
		case sAssume:
			sb.WriteString("(assert " + s.Text + ")\n")
		case sOblig, sCover:
			if keep(s.Ob) {
				fmt.Fprintf(&sb, "(push 1)\n(assert %s)\n(check-sat)\n(pop 1)\n", vc.negGoal(s.Ob))
			}
		}
	}
	return sb.String()
}

func (vc *VC) negGoal(ob *Oblig) string {
	if ob.IsCover {
		return ob.Reach
	}
	g := ob.Goal
	if ob.Except != "" {
		g = fmt.Sprintf("(or %s %s)", ob.Except, g)
	}
	return and(ob.Reach, fmt.Sprintf("(not %s)", g))
}

func (vc *VC) standaloneScript(ob *Oblig, withModel bool) string {
	hdr := ""
	if withModel {
		hdr = "(set-option :produce-models true)\n"
	}
	return vc.withAxioms(hdr+vc.header(), vc.standaloneBody(ob, withModel))
}

func (vc *VC) standaloneBody(ob *Oblig, withModel bool) string {
	var sb strings.Builder
	for i, s := range vc.steps {
		if i >= ob.step {
			break
		}
		switch s.Kind {
		case sDecl:
			sb.WriteString(s.Text + "\n")
		case sAssume:
			sb.WriteString("(assert " + s.Text + ")\n")
		}
	}
	fmt.Fprintf(&sb, "(assert %s)\n(check-sat)\n", vc.negGoal(ob))
	if withModel {
		sb.WriteString("(get-model)\n")
	}
	return sb.String()
}

func (vc *VC) sortedNotes() []string {
	var out []string
	for n := range vc.notes {
		if strings.HasPrefix(n, "\x00") {
			continue
		}
		out = append(out, n)
	}
	sort.Strings(out)
	return out
}

var _ = token.NoPos

// relational runs the function a second time on independent inputs (self-composition) and checks
// two-run postconditions such as monotonicity. Both runs start in the same state.
func (vc *VC) relational(fr1 *Frame, spec *FuncSpec) {
	fn := vc.top
	fr2 := vc.newFrame(fn, nil)
	fr2.spec = spec
	fr2.isTop = false
	fr2.entry = newState()
	for i, p := range fn.Params {
		s := vc.sortOf(p.Type())
		n := "p_" + smtIdent(p.Name()) + "_2"
		if p.Name() == "" || p.Name() == "_" {
			n = fmt.Sprintf("p_arg%d_2", i)
		}
		vc.declare(n, s)
		vc.assume(vc.wf(p.Type(), n))
		fr2.vals[p] = Term{n, s, p.Type()}
	}
	fr2.curReach = "true"
	ctx2 := fr2.specCtx(fr2.entry, fr2.entry, fn.Blocks[0], 0)
	for _, rq := range spec.Requires {
		if g, err := ctx2.evalBool(rq.E); err == nil {
			vc.assume(g)
		}
	}
	curFrameForDiv = nil // obligations of the second copy are duplicates of the first
	nob := len(vc.obligs)
	fr2.run(fr2.entry.clone(), "true")
	// drop automatic obligations generated by the second copy (identical to the first copy's)
	vc.dropObligsFrom(nob)
	curFrameForDiv = fr1
	rn := resultNames(spec, fn.Signature)
	// the unary postconditions hold for the second run too (they are proved for arbitrary inputs above)
	for _, e2 := range fr2.exits {
		if e2.kind != "return" || e2.reach == "false" {
			continue
		}
		c2 := fr2.specCtx(e2.st, fr2.entry, nil, 0)
		for i, r := range e2.results {
			if i < len(rn) && rn[i] != "" {
				c2.env[rn[i]] = r
			}
			if i == 0 {
				c2.env["result"] = r
			}
			c2.env[fmt.Sprintf("result%d", i)] = r
		}
		for _, en := range spec.Ensures {
			if g, err := c2.evalBool(en.E); err == nil {
				vc.assumeIf(e2.reach, g)
			}
		}
	}
	for _, e1 := range fr1.exits {
		if e1.kind != "return" || e1.reach == "false" {
			continue
		}
		for _, e2 := range fr2.exits {
			if e2.kind != "return" || e2.reach == "false" {
				continue
			}
			ctx := fr1.specCtx(e1.st, fr1.entry, nil, 0)
			for i, p := range fn.Params {
				ctx.env[p.Name()+"_2"] = fr2.vals[p]
				_ = i
			}
			for i, r := range e1.results {
				if i < len(rn) && rn[i] != "" {
					ctx.env[rn[i]] = r
				}
				if i == 0 {
					ctx.env["result"] = r
				}
				ctx.env[fmt.Sprintf("result%d", i)] = r
			}
			for i, r := range e2.results {
				if i < len(rn) && rn[i] != "" {
					ctx.env[rn[i]+"_2"] = r
				}
				if i == 0 {
					ctx.env["result_2"] = r
				}
				ctx.env[fmt.Sprintf("result%d_2", i)] = r
			}
			for _, en := range spec.Ensures2 {
				g, err := ctx.evalBool(en.E)
				if err != nil {
					vc.unsupportedf("ensures2 %q: %v", en.Text, err)
					continue
				}
				vc.oblige("ensures2", fr1.tagsFor(en.Tags), and(e1.reach, e2.reach), g, fmt.Sprintf("two-run postcondition (returns at %s and %s): %s", vc.posOf(e1.pos), vc.posOf(e2.pos), en.Text), e1.pos, en)
			}
		}
	}
}

// dropObligsFrom removes obligations (and their steps) generated after index n, keeping assumptions.
func (vc *VC) dropObligsFrom(n int) {
	drop := map[*Oblig]bool{}
	for _, ob := range vc.obligs[n:] {
		drop[ob] = true
	}
	vc.obligs = vc.obligs[:n]
	var steps []*Step
	for _, s := range vc.steps {
		if (s.Kind == sOblig || s.Kind == sCover) && drop[s.Ob] {
			continue
		}
		steps = append(steps, s)
	}
	vc.steps = steps
	for i, s := range vc.steps {
		if s.Ob != nil {
			s.Ob.step = i
		}
	}
}

// applyEntryGhosts performs the `ghost NAME = expr` updates of the contract at the start of the body
// (after the entry state has been recorded, so that old(NAME) denotes the value before the update).
func (fr *Frame) applyEntryGhosts(st *State) {
	if !fr.isTop || fr.spec == nil {
		return
	}
	fr.applyGhosts(fr.spec.EntryGhosts, fr.specCtx(st, fr.entry, fr.fn.Blocks[0], 0), st)
}

func (fr *Frame) applyGhosts(gas []*GhostAssign, ctx *SpecCtx, st *State) {
	vc := fr.vc
	for _, ga := range gas {
		ok := false
		for _, g := range vc.db.Ghosts {
			if g.Name == ga.Name {
				vc.comp(g.Name, g.Sort)
				t, err := ctx.eval(ga.E)
				if err != nil {
					vc.unsupportedf("ghost %s: %v", ga.Text, err)
				} else {
					vc.set(st, g.Name, ctx.coerceLit(t, g.Sort).S)
				}
				ok = true
			}
		}
		if !ok {
			vc.unsupportedf("ghost assignment to undeclared ghost %s", ga.Name)
		}
	}
}

// checkImplements: at a return exit, the post-conditions of the interface-method contract ikey must
// hold (behavioural subtyping, post-condition half). Formals of the interface method are bound by
// position; `this` is the receiver as an interface value. The pre-condition half is reported as an
// assumption: what the implementation requires beyond the interface contract is an object invariant
// established by its constructor.
func (fr *Frame) checkImplements(ikey string, ex *Exit) {
	vc := fr.vc
	ispec := vc.lookupSpec(ikey)
	if ispec == nil || !ispec.IsIface {
		vc.unsupportedf("implements %s: no such interface contract", ikey)
		return
	}
	i := strings.LastIndex(ikey, ".")
	it := vc.lookupType("", ikey[:i])
	if it == nil {
		vc.unsupportedf("implements %s: unknown interface type", ikey)
		return
	}
	iface, ok := it.Underlying().(*types.Interface)
	if !ok {
		vc.unsupportedf("implements %s: not an interface", ikey)
		return
	}
	var msig *types.Signature
	for k := 0; k < iface.NumMethods(); k++ {
		if iface.Method(k).Name() == ikey[i+1:] {
			msig = iface.Method(k).Type().(*types.Signature)
		}
	}
	if msig == nil {
		vc.unsupportedf("implements %s: no such method", ikey)
		return
	}
	fn := fr.fn
	if fn.Signature.Recv() == nil || len(fn.Params) != msig.Params().Len()+1 {
		vc.unsupportedf("implements %s: %s is not a method with a matching signature", ikey, vc.name)
		return
	}
	env := map[string]Term{}
	recv := fr.val(fn.Params[0])
	box, _ := vc.boxFns(fn.Params[0].Type())
	env["this"] = Term{fmt.Sprintf("(%s %s)", box, recv.S), "Int", it}
	for k := 0; k < msig.Params().Len(); k++ {
		n := msig.Params().At(k).Name()
		if n == "" || n == "_" {
			n = fmt.Sprintf("arg%d", k)
		}
		if k < len(ispec.Params) {
			n = ispec.Params[k]
		}
		t := fr.val(fn.Params[k+1])
		t.T = msig.Params().At(k).Type()
		env[n] = t
	}
	rn := resultNames(ispec, msig)
	for k, r := range ex.results {
		if k < len(rn) && rn[k] != "" && rn[k] != "_" {
			env[rn[k]] = r
		}
		env[fmt.Sprintf("result%d", k)] = r
		if k == 0 {
			env["result"] = r
		}
	}
	ctx := &SpecCtx{vc: vc, env: env, st: ex.st, old: fr.entry, pkg: ispec.Pkg}
	for _, l := range ispec.Lets {
		c0 := &SpecCtx{vc: vc, env: env, st: fr.entry, old: fr.entry, pkg: ispec.Pkg}
		t, err := c0.eval(l.E)
		if err != nil {
			vc.unsupportedf("implements %s: let %s: %v", ikey, l.Text, err)
			continue
		}
		env[l.Name] = t
	}
	for _, en := range ispec.Ensures {
		g, err := ctx.evalBool(en.E)
		if err != nil {
			vc.unsupportedf("implements %s: ensures %q: %v", ikey, en.Text, err)
			continue
		}
		tags := en.Tags
		if len(tags) == 0 {
			tags = fr.autoTags()
		} else {
			tags = intersectOrAll(tags, fr.autoTags())
		}
		vc.oblige("implements", tags, ex.reach, g, fmt.Sprintf("post-condition of %s: %s", ikey, en.Text), ex.pos, en)
	}
	vc.note("%s is checked against the post-conditions of %s; pre-conditions of the implementation beyond the interface contract are object invariants established by its constructor (not checked)", vc.name, ikey)
}

// modCompQuiet: the ghost components named by a modifies expression (no diagnostics).
func (vc *VC) modCompQuiet(m Expr, spec *FuncSpec) []string {
	switch m := m.(type) {
	case *EIdent:
		return []string{m.Name}
	case *EIndex:
		return vc.modCompQuiet(m.X, spec)
	}
	return nil
}

// checkIfaceFrame: a method that can be reached through an interface whose method carries a contract
// may change no more ghost state than that interface contract tells callers it changes (callers havoc
// only the interface's modifies set). Checked syntactically on the declared ghost components.
func (vc *VC) checkIfaceFrame(fn *ssa.Function, spec *FuncSpec) {
	if fn.Signature.Recv() == nil || len(spec.Modifies) == 0 {
		return
	}
	rt := fn.Signature.Recv().Type()
	isGhost := map[string]bool{}
	for _, g := range vc.db.Ghosts {
		isGhost[g.Name] = true
	}
	var keys []string
	for k, is := range vc.db.Funcs {
		if is.IsIface && strings.HasSuffix(k, "."+fn.Name()) {
			keys = append(keys, k)
		}
	}
	sort.Strings(keys)
	for _, k := range keys {
		is := vc.db.Funcs[k]
		i := strings.LastIndex(k, ".")
		it := vc.lookupType("", k[:i])
		if it == nil {
			continue
		}
		iface, ok := it.Underlying().(*types.Interface)
		if !ok || !(types.Implements(rt, iface) || types.Implements(types.NewPointer(rt), iface)) {
			continue
		}
		if is.Trusted && len(is.Modifies) == 0 {
			continue
		}
		allowed := map[string]bool{}
		for _, m := range is.Modifies {
			for _, c := range vc.modCompQuiet(m, is) {
				allowed[c] = true
			}
		}
		for _, m := range spec.Modifies {
			for _, c := range vc.modCompQuiet(m, spec) {
				if _, priv := vc.db.Private[c]; priv {
					continue // no contract outside the owning packages can mention it
				}
				if isGhost[c] && !allowed[c] {
					vc.unsupportedf("frame: %s declares `modifies %s`, which the interface contract %s (through which it is called) does not list", vc.name, c, k)
				}
			}
		}
	}
}

// mentionsGlobal: does the function under verification (its body, its closures, the static callees it
// reaches inside its own package, or the text of its contract) refer to the package-level variable g?
func (vc *VC) mentionsGlobal(g *ssa.Global) bool {
	if vc.spec != nil {
		var texts []string
		for _, cs := range [][]*Clause{vc.spec.Requires, vc.spec.Ensures, vc.spec.EnsuresPanic, vc.spec.Ensures2, vc.spec.Lemmas, vc.spec.AssumePre, vc.spec.Assumes} {
			for _, c := range cs {
				texts = append(texts, c.Text)
			}
		}
		for _, ls := range vc.spec.Loops {
			for _, c := range ls.Invariants {
				texts = append(texts, c.Text)
			}
		}
		for _, a := range vc.spec.Ats {
			if a.Clause != nil {
				texts = append(texts, a.Clause.Text)
			}
		}
		for _, t := range texts {
			if mentionsIdent(t, g.Name()) {
				return true
			}
		}
	}
	seen := map[*ssa.Function]bool{}
	var visit func(f *ssa.Function, depth int) bool
	visit = func(f *ssa.Function, depth int) bool {
		if f == nil || seen[f] || depth > 4 {
			return false
		}
		seen[f] = true
		for _, b := range f.Blocks {
			for _, ins := range b.Instrs {
				for _, op := range ins.Operands(nil) {
					if *op == ssa.Value(g) {
						return true
					}
					if mc, ok := (*op).(*ssa.MakeClosure); ok {
						if visit(mc.Fn.(*ssa.Function), depth+1) {
							return true
						}
					}
				}
				if c, ok := ins.(ssa.CallInstruction); ok {
					if callee := c.Common().StaticCallee(); callee != nil && callee.Pkg == f.Pkg {
						if visit(callee, depth+1) {
							return true
						}
					}
				}
			}
		}
		for _, af := range f.AnonFuncs {
			if visit(af, depth+1) {
				return true
			}
		}
		return false
	}
	return visit(vc.top, 0)
}

// checkEffectsPrivate: every memory write of a function declared `effects_private` (plain stores and
// sync/atomic read-modify-writes) must go to a location reached from an unexported package-level
// variable of the function's own package, or to a local variable. Together with "no contract outside
// the package can name those variables" this is what lets other packages treat the call as
// effect-free.
func (vc *VC) checkEffectsPrivate(fn *ssa.Function) {
	var root func(v ssa.Value, depth int) ssa.Value
	root = func(v ssa.Value, depth int) ssa.Value {
		if depth > 12 {
			return v
		}
		switch x := v.(type) {
		case *ssa.IndexAddr:
			return root(x.X, depth+1)
		case *ssa.FieldAddr:
			return root(x.X, depth+1)
		case *ssa.Slice:
			return root(x.X, depth+1)
		case *ssa.UnOp:
			if x.Op == token.MUL {
				return root(x.X, depth+1)
			}
		}
		return v
	}
	check := func(addr ssa.Value, pos token.Pos) {
		switch r := root(addr, 0).(type) {
		case *ssa.Global:
			if r.Pkg == fn.Pkg && !ast.IsExported(r.Name()) {
				return
			}
		case *ssa.Alloc:
			return
		}
		vc.unsupportedf("effects_private: write at %s does not go to a location reached from an unexported package-level variable", vc.posOf(pos))
	}
	for _, b := range fn.Blocks {
		for _, ins := range b.Instrs {
			switch x := ins.(type) {
			case *ssa.Store:
				check(x.Addr, x.Pos())
			case ssa.CallInstruction:
				cc := x.Common()
				if callee := cc.StaticCallee(); callee != nil && callee.Pkg != nil && callee.Pkg.Pkg.Path() == "sync/atomic" && len(cc.Args) > 0 {
					if strings.HasPrefix(callee.Name(), "Add") || strings.HasPrefix(callee.Name(), "Store") || strings.HasPrefix(callee.Name(), "CompareAndSwap") || strings.HasPrefix(callee.Name(), "Swap") {
						check(cc.Args[0], x.Pos())
					}
				} else if callee != nil && callee.Pkg == fn.Pkg {
					if cs := vc.lookupSpec(qualName(callee)); cs != nil && len(cs.Modifies) > 0 && !cs.EffectsPrivate {
						vc.unsupportedf("effects_private: calls %s, which declares effects of its own", qualName(callee))
					}
				}
			}
		}
	}
}
