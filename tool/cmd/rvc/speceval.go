package main

import (
	"fmt"
	"go/constant"
	"go/token"
	"go/types"
	"math/big"
	"strconv"
	"strings"

	"golang.org/x/tools/go/ssa"
)

// SpecCtx evaluates specification expressions to SMT terms.
type SpecCtx struct {
	vc    *VC
	fr    *Frame // for locals; may be nil
	env   map[string]Term
	st    *State
	old   *State
	pkg   string // short package path used to resolve package-level names
	block *ssa.BasicBlock
	idx   int
	inOld bool
	usedCalls *[]string // reach conditions of the calls whose results ($ret_*) were referenced
}

func (fr *Frame) specCtx(st, old *State, b *ssa.BasicBlock, idx int) *SpecCtx {
	ctx := &SpecCtx{vc: fr.vc, fr: fr, env: map[string]Term{}, st: st, old: old, block: b, idx: idx}
	if fr.fn.Pkg != nil {
		ctx.pkg = shortPkg(fr.fn.Pkg.Pkg.Path())
	}
	if fr.spec != nil && fr.spec.Pkg != "" {
		ctx.pkg = fr.spec.Pkg
	}
	// parameters
	for i, p := range fr.fn.Params {
		name := p.Name()
		if fr.spec != nil && i < len(fr.spec.Params) {
			name = fr.spec.Params[i]
		}
		ctx.env[name] = fr.val(p)
	}
	for k, v := range fr.letVals {
		ctx.env[k] = v
	}
	return ctx
}

func (c *SpecCtx) paramNames() map[string]bool {
	m := map[string]bool{}
	if c.fr != nil {
		for _, p := range c.fr.fn.Params {
			m[p.Name()] = true
		}
	}
	return m
}

func (c *SpecCtx) state() *State {
	if c.inOld {
		return c.old
	}
	return c.st
}

func (c *SpecCtx) evalBool(e Expr) (string, error) {
	t, err := c.eval(e)
	if err != nil {
		return "", err
	}
	if t.Sort != "Bool" {
		return "", fmt.Errorf("expected Bool, got %s in %s", t.Sort, exprString(e))
	}
	return t.S, nil
}

const litSort = "lit"

func (c *SpecCtx) eval(e Expr) (Term, error) {
	vc := c.vc
	switch e := e.(type) {
	case *ENum:
		v, ok := new(big.Int).SetString(e.Val, 0)
		if !ok {
			return Term{}, fmt.Errorf("bad number %s", e.Val)
		}
		if !vc.bv {
			return vc.intLit(v, types.Typ[types.Int]), nil
		}
		return Term{v.String(), litSort, nil}, nil
	case *EStr:
		return Term{vc.strLit(unquote(e.Val)), "Str", types.Typ[types.String]}, nil
	case *EIdent:
		return c.ident(e.Name)
	case *EUn:
		if e.Op == "*" {
			x, err := c.eval(e.X)
			if err != nil {
				return Term{}, err
			}
			return c.deref(x)
		}
		x, err := c.eval(e.X)
		if err != nil {
			return Term{}, err
		}
		switch e.Op {
		case "!":
			return Term{fmt.Sprintf("(not %s)", x.S), "Bool", nil}, nil
		case "-":
			x = c.coerceLit(x, "Int")
			if strings.HasPrefix(x.Sort, "(_ BitVec") {
				return Term{fmt.Sprintf("(bvneg %s)", x.S), x.Sort, x.T}, nil
			}
			return Term{fmt.Sprintf("(- %s)", x.S), x.Sort, x.T}, nil
		}
		return Term{}, fmt.Errorf("unary %s unsupported", e.Op)
	case *EBin:
		return c.binary(e)
	case *EIte:
		cnd, err := c.evalBool(e.C)
		if err != nil {
			return Term{}, err
		}
		a, err := c.eval(e.A)
		if err != nil {
			return Term{}, err
		}
		b, err := c.eval(e.B)
		if err != nil {
			return Term{}, err
		}
		a, b = c.unify(a, b)
		return Term{fmt.Sprintf("(ite %s %s %s)", cnd, a.S, b.S), a.Sort, a.T}, nil
	case *ESel:
		return c.selector(e)
	case *EIndex:
		x, err := c.eval(e.X)
		if err != nil {
			return Term{}, err
		}
		i, err := c.eval(e.I)
		if err != nil {
			return Term{}, err
		}
		r, err := c.index(x, i)
		if err != nil {
			return r, fmt.Errorf("%v in %s", err, exprString(e))
		}
		return r, nil
	case *ESlice:
		return c.sliceExpr(e)
	case *ECall:
		return c.call(e)
	case *EQuant:
		return c.quant(e)
	}
	return Term{}, fmt.Errorf("cannot evaluate %T", e)
}

func unquote(s string) string {
	u, err := strconv.Unquote("\"" + s + "\"")
	if err != nil {
		return s
	}
	return u
}

func (c *SpecCtx) coerceLit(t Term, sort string) Term {
	if t.Sort != litSort {
		return t
	}
	v, _ := new(big.Int).SetString(t.S, 10)
	if strings.HasPrefix(sort, "(_ BitVec") {
		var w int
		fmt.Sscanf(sort, "(_ BitVec %d)", &w)
		m := new(big.Int).Exp(two, big.NewInt(int64(w)), nil)
		x := new(big.Int).Mod(v, m)
		return Term{fmt.Sprintf("(_ bv%s %d)", x.String(), w), sort, nil}
	}
	if v.Sign() < 0 {
		return Term{fmt.Sprintf("(- %s)", new(big.Int).Neg(v).String()), "Int", nil}
	}
	return Term{v.String(), "Int", nil}
}

func (c *SpecCtx) unify(a, b Term) (Term, Term) {
	if a.Sort == litSort && b.Sort == litSort {
		s := c.vc.isort()
		return c.coerceLit(a, s), c.coerceLit(b, s)
	}
	if a.Sort == litSort {
		a = c.coerceLit(a, b.Sort)
		a.T = b.T
	}
	if b.Sort == litSort {
		b = c.coerceLit(b, a.Sort)
		b.T = a.T
	}
	// bv width mismatch: extend the narrower (spec convenience)
	if strings.HasPrefix(a.Sort, "(_ BitVec") && strings.HasPrefix(b.Sort, "(_ BitVec") && a.Sort != b.Sort {
		var wa, wb int
		fmt.Sscanf(a.Sort, "(_ BitVec %d)", &wa)
		fmt.Sscanf(b.Sort, "(_ BitVec %d)", &wb)
		if wa < wb {
			a = Term{c.extend(a, wb-wa), b.Sort, b.T}
		} else {
			b = Term{c.extend(b, wa-wb), a.Sort, a.T}
		}
	}
	return a, b
}

func (c *SpecCtx) extend(t Term, by int) string {
	if t.T != nil {
		if _, signed, ok := intInfo(t.T); ok && signed {
			return fmt.Sprintf("((_ sign_extend %d) %s)", by, t.S)
		}
	}
	return fmt.Sprintf("((_ zero_extend %d) %s)", by, t.S)
}

func (c *SpecCtx) binary(e *EBin) (Term, error) {
	switch e.Op {
	case "==>", "&&", "||":
		l, err := c.evalBool(e.L)
		if err != nil {
			return Term{}, err
		}
		r, err := c.evalBool(e.R)
		if err != nil {
			return Term{}, err
		}
		op := map[string]string{"==>": "=>", "&&": "and", "||": "or"}[e.Op]
		return Term{fmt.Sprintf("(%s %s %s)", op, l, r), "Bool", nil}, nil
	}
	l, err := c.eval(e.L)
	if err != nil {
		return Term{}, err
	}
	r, err := c.eval(e.R)
	if err != nil {
		return Term{}, err
	}
	l, r = c.unify(l, r)
	isBV := strings.HasPrefix(l.Sort, "(_ BitVec")
	signed := false
	if l.T != nil {
		_, signed, _ = intInfo(l.T)
	}
	switch e.Op {
	case "==":
		if c.vc.db.expandSort(l.Sort) != c.vc.db.expandSort(r.Sort) {
			return Term{}, fmt.Errorf("sort mismatch in %s: %s vs %s", exprString(e), l.Sort, r.Sort)
		}
		return Term{fmt.Sprintf("(= %s %s)", l.S, r.S), "Bool", nil}, nil
	case "!=":
		if c.vc.db.expandSort(l.Sort) != c.vc.db.expandSort(r.Sort) {
			return Term{}, fmt.Errorf("sort mismatch in %s: %s vs %s", exprString(e), l.Sort, r.Sort)
		}
		return Term{fmt.Sprintf("(not (= %s %s))", l.S, r.S), "Bool", nil}, nil
	case "<", "<=", ">", ">=":
		var op string
		if isBV {
			op = map[string]string{"<": "bvult", "<=": "bvule", ">": "bvugt", ">=": "bvuge"}[e.Op]
			if signed {
				op = map[string]string{"<": "bvslt", "<=": "bvsle", ">": "bvsgt", ">=": "bvsge"}[e.Op]
			}
		} else {
			op = e.Op
		}
		return Term{fmt.Sprintf("(%s %s %s)", op, l.S, r.S), "Bool", nil}, nil
	case "+", "-", "*", "/", "%", "&", "|", "^", "<<", ">>":
		if isBV {
			op := map[string]string{"+": "bvadd", "-": "bvsub", "*": "bvmul", "/": "bvudiv", "%": "bvurem", "&": "bvand", "|": "bvor", "^": "bvxor", "<<": "bvshl", ">>": "bvlshr"}[e.Op]
			if signed {
				switch e.Op {
				case "/":
					op = "bvsdiv"
				case "%":
					op = "bvsrem"
				case ">>":
					op = "bvashr"
				}
			}
			return Term{fmt.Sprintf("(%s %s %s)", op, l.S, r.S), l.Sort, l.T}, nil
		}
		if l.Sort != "Int" || r.Sort != "Int" {
			return Term{}, fmt.Errorf("arithmetic on %s/%s in %s", l.Sort, r.Sort, exprString(e))
		}
		switch e.Op {
		case "/":
			return Term{fmt.Sprintf("(div %s %s)", l.S, r.S), "Int", nil}, nil
		case "%":
			return Term{fmt.Sprintf("(mod %s %s)", l.S, r.S), "Int", nil}, nil
		case "&":
			return Term{fmt.Sprintf("(bitand_int %s %s)", l.S, r.S), "Int", nil}, nil
		case "|":
			return Term{fmt.Sprintf("(bitor_int %s %s)", l.S, r.S), "Int", nil}, nil
		case "^":
			return Term{fmt.Sprintf("(bitxor_int %s %s)", l.S, r.S), "Int", nil}, nil
		case "<<":
			return Term{fmt.Sprintf("(* %s (pow2 %s))", l.S, r.S), "Int", nil}, nil
		case ">>":
			return Term{fmt.Sprintf("(div %s (pow2 %s))", l.S, r.S), "Int", nil}, nil
		}
		return Term{fmt.Sprintf("(%s %s %s)", e.Op, l.S, r.S), "Int", nil}, nil
	}
	return Term{}, fmt.Errorf("operator %s unsupported", e.Op)
}

func (c *SpecCtx) ident(name string) (Term, error) {
	vc := c.vc
	if c.fr != nil && c.block != nil && !c.inOld {
		// at a program point inside the body a parameter name denotes the variable's current value
		if _, isParam := c.paramNames()[name]; isParam {
			if t, ok := c.fr.resolveLocal(name, c.block, c.idx, c.state()); ok {
				return t, nil
			}
		}
	}
	if t, ok := c.env[name]; ok {
		return t, nil
	}
	switch name {
	case "true", "false":
		return Term{name, "Bool", types.Typ[types.Bool]}, nil
	case "nil":
		return Term{"0", "Int", nil}, nil
	}
	for _, g := range vc.db.Ghosts {
		if g.Name == name {
			vc.comp(g.Name, g.Sort)
			return Term{vc.get(c.state(), g.Name), g.Sort, nil}, nil
		}
	}
	if c.fr != nil {
		if t, ok := c.fr.resolveLocal(name, c.block, c.idx, c.state()); ok {
			return t, nil
		}
		// captured variables of a closure
		for fv, lv := range c.fr.freeL {
			if fv.Name() == name {
				t := vc.loadL(lv, c.state())
				return t, nil
			}
		}
	}
	if t, ok := c.pkgObject(c.pkg, name); ok {
		return t, nil
	}
	if sig, ok := vc.db.Sigs[name]; ok && len(sig.Args) == 0 {
		return Term{name, sig.Ret, nil}, nil
	}
	if strings.HasPrefix(name, "$ret") && c.fr != nil {
		key := strings.TrimPrefix(strings.TrimPrefix(name, "$ret"), "_") // $ret_x_M_0 -> x_M_0 ; $ret1_x_M_0 -> 1_x_M_0
		if t, ok := c.fr.vc.topFrame.callRets[key]; ok {
			if c.usedCalls != nil {
				*c.usedCalls = append(*c.usedCalls, c.fr.vc.topFrame.callReach[key])
			}
			return t, nil
		}
		// a call that is not on any path: its result is irrelevant; use a fresh unconstrained value
		return Term{}, fmt.Errorf("no call result named %s", name)
	}
	if name == "$recovered" || name == "$panic" {
		vc.comp(name, "Int")
		return Term{vc.get(c.state(), name), "Int", nil}, nil
	}
	if name == "$alloc" {
		return Term{vc.get(c.state(), vc.allocComp()), "Int", nil}, nil
	}
	return Term{}, fmt.Errorf("unresolved identifier %q", name)
}

// pkgObject resolves a package-level var or const.
func (c *SpecCtx) pkgObject(pkg, name string) (Term, bool) {
	vc := c.vc
	p := vc.w.PkgByPath[longPkg(pkg)]
	if p == nil || p.Types == nil {
		return Term{}, false
	}
	obj := p.Types.Scope().Lookup(name)
	if obj == nil {
		return Term{}, false
	}
	switch o := obj.(type) {
	case *types.Const:
		switch o.Val().Kind() {
		case constant.Int:
			bi, _ := new(big.Int).SetString(o.Val().ExactString(), 10)
			return vc.intLit(bi, o.Type()), true
		case constant.Bool:
			return Term{fmt.Sprint(constant.BoolVal(o.Val())), "Bool", o.Type()}, true
		case constant.String:
			return Term{vc.strLit(constant.StringVal(o.Val())), "Str", o.Type()}, true
		}
	case *types.Var:
		sp := vc.w.SSAPkgs[p.PkgPath]
		if sp == nil {
			if sp2 := vc.w.Prog.ImportedPackage(p.PkgPath); sp2 != nil {
				sp = sp2
			}
		}
		if sp != nil {
			if g, ok := sp.Members[name].(*ssa.Global); ok {
				key := shortPkg(p.PkgPath) + "." + name
				if types.Identical(o.Type(), types.Universe.Lookup("error").Type()) {
					return Term{vc.sentinel(key), "Int", o.Type()}, true
				}
				comp := vc.globalComp(g)
				return Term{vc.get(c.state(), comp), vc.sortOf(o.Type()), o.Type()}, true
			}
		}
	}
	return Term{}, false
}

func (c *SpecCtx) deref(x Term) (Term, error) {
	vc := c.vc
	if x.T == nil {
		return Term{}, fmt.Errorf("deref of untyped term")
	}
	pt, ok := x.T.Underlying().(*types.Pointer)
	if !ok {
		return Term{}, fmt.Errorf("deref of non-pointer %s", x.T)
	}
	comp := vc.memComp(pt.Elem())
	return Term{fmt.Sprintf("(select %s %s)", vc.get(c.state(), comp), x.S), vc.sortOf(pt.Elem()), pt.Elem()}, nil
}

func (c *SpecCtx) selector(e *ESel) (Term, error) {
	vc := c.vc
	// package-qualified name?
	if id, ok := e.X.(*EIdent); ok {
		if _, bound := c.env[id.Name]; !bound {
			if pkg := c.resolvePkgName(id.Name); pkg != "" {
				if t, ok := c.pkgObject(pkg, e.Name); ok {
					return t, nil
				}
			}
		}
	}
	x, err := c.eval(e.X)
	if err != nil {
		return Term{}, err
	}
	if x.T == nil {
		// datatype accessor on a spec sort: Sort_field
		return Term{}, fmt.Errorf("field %s of untyped term %s", e.Name, exprString(e.X))
	}
	if _, ok := x.T.Underlying().(*types.Pointer); ok {
		x, err = c.deref(x)
		if err != nil {
			return Term{}, err
		}
	}
	st, ok := x.T.Underlying().(*types.Struct)
	if !ok {
		return Term{}, fmt.Errorf("field %s of non-struct %s", e.Name, x.T)
	}
	s := vc.sortOf(x.T)
	for i := 0; i < st.NumFields(); i++ {
		if st.Field(i).Name() == e.Name {
			ft := st.Field(i).Type()
			return Term{fmt.Sprintf("(%s_%s %s)", s, e.Name, x.S), vc.sortOf(ft), ft}, nil
		}
	}
	// promoted fields through embedded structs
	for i := 0; i < st.NumFields(); i++ {
		f := st.Field(i)
		if f.Embedded() {
			inner := Term{fmt.Sprintf("(%s_%s %s)", s, f.Name(), x.S), vc.sortOf(f.Type()), f.Type()}
			c2 := *c
			c2.env = map[string]Term{"$x": inner}
			for k, v := range c.env {
				c2.env[k] = v
			}
			if t, err := c2.selector(&ESel{&EIdent{"$x"}, e.Name}); err == nil {
				return t, nil
			}
		}
	}
	return Term{}, fmt.Errorf("no field %s in %s", e.Name, x.T)
}

func (c *SpecCtx) resolvePkgName(name string) string {
	for path := range c.vc.w.PkgByPath {
		if path == name || strings.HasSuffix(path, "/"+name) {
			if strings.HasPrefix(path, repoModule) {
				return shortPkg(path)
			}
		}
	}
	for path := range c.vc.w.PkgByPath {
		if path == name || strings.HasSuffix(path, "/"+name) {
			return path
		}
	}
	return ""
}

func (c *SpecCtx) index(x, i Term) (Term, error) {
	vc := c.vc
	if x.T != nil {
		switch u := x.T.Underlying().(type) {
		case *types.Slice:
			i = c.coerceLit(i, vc.isort())
			comp := vc.arrComp(u.Elem())
			return Term{fmt.Sprintf("(select (select %s (sl_ref %s)) %s)", vc.get(c.state(), comp), x.S, vc.iadd(fmt.Sprintf("(sl_off %s)", x.S), vc.toIndex(i))), vc.sortOf(u.Elem()), u.Elem()}, nil
		case *types.Array:
			i = c.coerceLit(i, vc.isort())
			return Term{fmt.Sprintf("(select %s %s)", x.S, vc.toIndex(i)), vc.sortOf(u.Elem()), u.Elem()}, nil
		case *types.Pointer:
			if a, ok := u.Elem().Underlying().(*types.Array); ok {
				i = c.coerceLit(i, vc.isort())
				comp := vc.arrComp(a.Elem())
				return Term{fmt.Sprintf("(select (select %s %s) %s)", vc.get(c.state(), comp), x.S, vc.toIndex(i)), vc.sortOf(a.Elem()), a.Elem()}, nil
			}
		}
	}
	if xs := c.vc.db.expandSort(x.Sort); strings.HasPrefix(xs, "(Array ") {
		n, _ := readSx(xs)
		i = c.coerceLit(i, n.list[1].String())
		return Term{fmt.Sprintf("(select %s %s)", x.S, i.S), n.list[2].String(), nil}, nil
	}
	return Term{}, fmt.Errorf("cannot index %s", x.Sort)
}

func (c *SpecCtx) sliceExpr(e *ESlice) (Term, error) {
	vc := c.vc
	x, err := c.eval(e.X)
	if err != nil {
		return Term{}, err
	}
	if x.Sort != "Slice" {
		return Term{}, fmt.Errorf("slice expression on %s", x.Sort)
	}
	lo := vc.ilit(0)
	if e.Lo != nil {
		t, err := c.eval(e.Lo)
		if err != nil {
			return Term{}, err
		}
		lo = c.coerceLit(t, vc.isort()).S
	}
	hi := fmt.Sprintf("(sl_len %s)", x.S)
	if e.Hi != nil {
		t, err := c.eval(e.Hi)
		if err != nil {
			return Term{}, err
		}
		hi = c.coerceLit(t, vc.isort()).S
	}
	return Term{vc.mkSlice(fmt.Sprintf("(sl_ref %s)", x.S), vc.iadd(fmt.Sprintf("(sl_off %s)", x.S), lo), vc.isub(hi, lo), vc.isub(fmt.Sprintf("(sl_cap %s)", x.S), lo)), "Slice", x.T}, nil
}

func (c *SpecCtx) quant(e *EQuant) (Term, error) {
	vc := c.vc
	c2 := *c
	c2.env = map[string]Term{}
	for k, v := range c.env {
		c2.env[k] = v
	}
	var binders []string
	var ranges []string
	for _, v := range e.Vars {
		sort, gt := c.sortFromText(v[1])
		name := "q_" + v[0]
		binders = append(binders, fmt.Sprintf("(%s %s)", name, sort))
		c2.env[v[0]] = Term{name, sort, gt}
		if gt != nil && strings.TrimSpace(v[1]) != "int" {
			// `int` binders are mathematical integers; sized types keep their range
			if w := vc.wf(gt, name); w != "" {
				ranges = append(ranges, w)
			}
		}
	}
	body, err := c2.evalBool(e.Body)
	if err != nil {
		return Term{}, err
	}
	q := "exists"
	if e.Forall {
		q = "forall"
		if len(ranges) > 0 {
			body = fmt.Sprintf("(=> %s %s)", and(ranges...), body)
		}
	} else if len(ranges) > 0 {
		body = and(append(ranges, body)...)
	}
	if len(e.Vars) == 1 {
		if pats := inferPatterns(body, "q_"+e.Vars[0][0]); len(pats) > 0 {
			var ps []string
			for _, p := range pats {
				ps = append(ps, ":pattern ("+p+")")
			}
			body = fmt.Sprintf("(! %s %s)", body, strings.Join(ps, " "))
		}
	}
	return Term{fmt.Sprintf("(%s (%s) %s)", q, strings.Join(binders, " "), body), "Bool", nil}, nil
}

// inferPatterns picks E-matching triggers for a single bound variable v: the innermost applications
// of select / uninterpreted functions that take v directly (or v plus a constant offset term) as argument.
func inferPatterns(body, v string) []string {
	n, _ := readSx(body)
	if n == nil {
		return nil
	}
	seen := map[string]bool{}
	var out []string
	var walk func(x *sx)
	walk = func(x *sx) {
		if x.list == nil || len(x.list) == 0 {
			return
		}
		head := x.list[0].atom
		direct := false
		for _, a := range x.list[1:] {
			if a.list == nil && a.atom == v {
				direct = true
			}
			// v plus an offset: (+ off v)
			if len(a.list) == 3 && a.list[0].atom == "+" && head == "select" {
				for _, b := range a.list[1:] {
					if b.list == nil && b.atom == v {
						direct = true
					}
				}
			}
		}
		arith := map[string]bool{"+": true, "-": true, "*": true, "<": true, "<=": true, ">": true, ">=": true, "=": true, "and": true, "or": true, "not": true, "=>": true, "ite": true, "div": true, "mod": true, "distinct": true}
		if direct && head != "" && !arith[head] && !strings.HasPrefix(head, "(") {
			s := x.String()
			if !seen[s] && !strings.Contains(s, "(forall") && !strings.Contains(s, "(let") {
				seen[s] = true
				out = append(out, s)
			}
			return
		}
		for _, a := range x.list {
			walk(a)
		}
	}
	walk(n)
	if len(out) > 4 {
		out = out[:4]
	}
	return out
}

// sortFromText maps a type written in a spec (Go basic type or SMT sort) to a sort.
func (c *SpecCtx) sortFromText(s string) (string, types.Type) {
	vc := c.vc
	s = strings.TrimSpace(s)
	if obj := types.Universe.Lookup(s); obj != nil {
		if tn, ok := obj.(*types.TypeName); ok {
			return vc.sortOf(tn.Type()), tn.Type()
		}
	}
	if s == "[]byte" {
		t := types.NewSlice(types.Typ[types.Uint8])
		return "Slice", t
	}
	if !strings.ContainsAny(s, "() ") {
		if t := vc.lookupType(c.pkg, s); t != nil {
			return vc.sortOf(t), t
		}
	}
	return s, nil
}

func (c *SpecCtx) call(e *ECall) (Term, error) {
	vc := c.vc
	switch e.Fun {
	case "old":
		if len(e.Args) != 1 {
			return Term{}, fmt.Errorf("old takes one argument")
		}
		c2 := *c
		c2.inOld = true
		return c2.eval(e.Args[0])
	case "len", "cap":
		x, err := c.eval(e.Args[0])
		if err != nil {
			return Term{}, err
		}
		if x.Sort == "Slice" {
			return Term{fmt.Sprintf("(sl_%s %s)", e.Fun, x.S), vc.isort(), types.Typ[types.Int]}, nil
		}
		if x.Sort == "Str" {
			return Term{vc.fromInt(fmt.Sprintf("(str_len %s)", x.S)), vc.isort(), types.Typ[types.Int]}, nil
		}
		if x.T != nil {
			if a, ok := x.T.Underlying().(*types.Array); ok {
				return Term{vc.ilit(a.Len()), vc.isort(), types.Typ[types.Int]}, nil
			}
		}
		return Term{}, fmt.Errorf("%s of %s", e.Fun, x.Sort)
	case "ite":
		return c.eval(&EIte{e.Args[0], e.Args[1], e.Args[2]})
	case "upd":
		if len(e.Args) != 3 {
			return Term{}, fmt.Errorf("upd(a, i, v)")
		}
		a, err := c.eval(e.Args[0])
		if err != nil {
			return Term{}, err
		}
		n, _ := readSx(c.vc.db.expandSort(a.Sort))
		if n == nil || len(n.list) != 3 || n.list[0].atom != "Array" {
			return Term{}, fmt.Errorf("upd on non-array %s", a.Sort)
		}
		i, err := c.eval(e.Args[1])
		if err != nil {
			return Term{}, err
		}
		v, err := c.eval(e.Args[2])
		if err != nil {
			return Term{}, err
		}
		i = c.coerceLit(i, n.list[1].String())
		v = c.coerceLit(v, n.list[2].String())
		if v.Sort != n.list[2].String() {
			return Term{}, fmt.Errorf("upd value sort %s, want %s", v.Sort, n.list[2].String())
		}
		return Term{fmt.Sprintf("(store %s %s %s)", a.S, i.S, v.S), a.Sort, nil}, nil
	}
	if _, isSpecFn := vc.db.Sigs[e.Fun]; !isSpecFn && strings.HasPrefix(e.Fun, "is_") && len(e.Args) == 1 {
		// datatype tester: is_some(x)
		x, err := c.eval(e.Args[0])
		if err != nil {
			return Term{}, err
		}
		return Term{fmt.Sprintf("((_ is %s) %s)", strings.TrimPrefix(e.Fun, "is_"), x.S), "Bool", nil}, nil
	}
	// Go integer conversions
	if obj := types.Universe.Lookup(e.Fun); obj != nil && len(e.Args) == 1 {
		if tn, ok := obj.(*types.TypeName); ok {
			if tw, ts, ok := intInfo(tn.Type()); ok {
				x, err := c.eval(e.Args[0])
				if err != nil {
					return Term{}, err
				}
				return c.convertInt(x, tn.Type(), tw, ts)
			}
		}
	}
	// spec functions
	if sig, ok := vc.db.Sigs[e.Fun]; ok && e.Fun != "rd_data" && e.Fun != "rd_len" {
		if len(sig.Args) != len(e.Args) {
			return Term{}, fmt.Errorf("%s expects %d args", e.Fun, len(sig.Args))
		}
		var parts []string
		for i, a := range e.Args {
			t, err := c.eval(a)
			if err != nil {
				return Term{}, err
			}
			t = c.coerceLit(t, sig.Args[i])
			if t.Sort != sig.Args[i] && c.vc.db.expandSort(t.Sort) != c.vc.db.expandSort(sig.Args[i]) {
				return Term{}, fmt.Errorf("%s arg %d: expected %s, got %s (%s)", e.Fun, i, sig.Args[i], t.Sort, exprString(a))
			}
			parts = append(parts, t.S)
		}
		if len(parts) == 0 {
			return Term{e.Fun, sig.Ret, nil}, nil
		}
		return Term{fmt.Sprintf("(%s %s)", e.Fun, strings.Join(parts, " ")), sig.Ret, nil}, nil
	}
	// built-in spec helpers that need the heap
	switch e.Fun {
	case "bytes":
		// bytes(s): the content of a byte slice as (array, off, len) abstraction -> Bytes
		x, err := c.eval(e.Args[0])
		if err != nil {
			return Term{}, err
		}
		if x.Sort != "Slice" {
			return Term{}, fmt.Errorf("bytes() of %s", x.Sort)
		}
		comp := vc.arrComp(types.Typ[types.Uint8])
		return Term{fmt.Sprintf("(bytes_of (select %s (sl_ref %s)) (sl_off %s) (sl_len %s))", vc.get(c.state(), comp), x.S, x.S, x.S), "Bytes", nil}, nil
	case "arr":
		// arr(s): backing array of slice s
		x, err := c.eval(e.Args[0])
		if err != nil {
			return Term{}, err
		}
		if x.Sort != "Slice" || x.T == nil {
			return Term{}, fmt.Errorf("arr() of %s", x.Sort)
		}
		et := x.T.Underlying().(*types.Slice).Elem()
		comp := vc.arrComp(et)
		return Term{fmt.Sprintf("(select %s (sl_ref %s))", vc.get(c.state(), comp), x.S), fmt.Sprintf("(Array %s %s)", vc.isort(), vc.sortOf(et)), nil}, nil
	case "barr":
		// barr(r): the byte array stored at reference r
		x, err := c.eval(e.Args[0])
		if err != nil {
			return Term{}, err
		}
		comp := vc.arrComp(types.Typ[types.Uint8])
		return Term{fmt.Sprintf("(select %s %s)", vc.get(c.state(), comp), x.S), "(Array Int Int)", nil}, nil
	case "ref", "off":
		x, err := c.eval(e.Args[0])
		if err != nil {
			return Term{}, err
		}
		if x.Sort != "Slice" {
			return Term{x.S, "Int", nil}, nil
		}
		if e.Fun == "off" {
			return Term{fmt.Sprintf("(sl_off %s)", x.S), vc.isort(), types.Typ[types.Int]}, nil
		}
		return Term{fmt.Sprintf("(sl_ref %s)", x.S), "Int", nil}, nil
	case "wr", "wrlen", "wrflushed":
		x, err := c.eval(e.Args[0])
		if err != nil {
			return Term{}, err
		}
		a, b, f := vc.wrComps()
		w := vc.canon("wr", x.S)
		switch e.Fun {
		case "wr":
			return Term{fmt.Sprintf("(select %s %s)", vc.get(c.state(), a), w), "(Array Int Int)", nil}, nil
		case "wrlen":
			return Term{fmt.Sprintf("(select %s %s)", vc.get(c.state(), b), w), "Int", nil}, nil
		}
		return Term{fmt.Sprintf("(select %s %s)", vc.get(c.state(), f), w), "Int", nil}, nil
	case "rdpos", "rd_data", "rd_len":
		x, err := c.eval(e.Args[0])
		if err != nil {
			return Term{}, err
		}
		r := vc.canon("rd", x.S)
		switch e.Fun {
		case "rd_data":
			vc.rdposComp()
			return Term{fmt.Sprintf("(rd_data %s)", r), "(Array Int Int)", nil}, nil
		case "rd_len":
			vc.rdposComp()
			return Term{fmt.Sprintf("(rd_len %s)", r), "Int", nil}, nil
		}
		return Term{fmt.Sprintf("(select %s %s)", vc.get(c.state(), vc.rdposComp()), r), "Int", nil}, nil
	case "mvisited":
		// mvisited(m, k): key k has been visited by the iteration currently running over map m
		x, err := c.eval(e.Args[0])
		if err != nil {
			return Term{}, err
		}
		mt, ok := x.T.Underlying().(*types.Map)
		if x.T == nil || !ok {
			return Term{}, fmt.Errorf("mvisited of a non-map")
		}
		it, ok := mapIterByTerm[vc][typeKey(mt)]
		if !ok {
			return Term{}, fmt.Errorf("mvisited: no iteration over %s is open", exprString(e.Args[0]))
		}
		k, err := c.eval(e.Args[1])
		if err != nil {
			return Term{}, err
		}
		return Term{fmt.Sprintf("(select (select %s %s) %s)", vc.get(c.state(), vc.mapIterComp(mt.Key())), it, k.S), "Bool", nil}, nil
	case "msum":
		// msum(m): the sum of the values of the keys visited so far by the iteration running over m
		// (after the iteration: of all keys)
		x, err := c.eval(e.Args[0])
		if err != nil {
			return Term{}, err
		}
		mt, ok := x.T.Underlying().(*types.Map)
		if x.T == nil || !ok {
			return Term{}, fmt.Errorf("msum of a non-map")
		}
		it, ok := mapIterByTerm[vc][typeKey(mt)]
		content := fmt.Sprintf("(select %s %s)", vc.get(c.state(), vc.mapComp(mt)), x.S)
		if !ok {
			// no iteration is open in this function (a caller reading a callee's post-condition): the sum
			// over all keys, an uninterpreted function of the map's content. Consistent with the
			// iteration form, which after a completed range has visited every key of the map.
			name := "msumall_" + typeKey(mt)
			if !vc.declared[name] {
				vc.declared[name] = true
				vc.decls = append(vc.decls, fmt.Sprintf("(declare-fun %s ((Array %s %s)) Int)", name, vc.sortOf(mt.Key()), vc.optSort(mt.Elem())))
			}
			return Term{fmt.Sprintf("(%s %s)", name, content), "Int", types.Typ[types.Int]}, nil
		}
		return Term{fmt.Sprintf("(%s %s (select %s %s))", vc.msumFn(mt), content, vc.get(c.state(), vc.mapIterComp(mt.Key())), it), "Int", types.Typ[types.Int]}, nil
	case "mlen":
		x, err := c.eval(e.Args[0])
		if err != nil {
			return Term{}, err
		}
		return Term{fmt.Sprintf("(select %s %s)", vc.get(c.state(), vc.mapLenComp()), x.S), "Int", types.Typ[types.Int]}, nil
	case "mapof", "mhas", "mval":
		x, err := c.eval(e.Args[0])
		if err != nil {
			return Term{}, err
		}
		if x.T == nil {
			return Term{}, fmt.Errorf("%s of untyped term", e.Fun)
		}
		mt, ok := x.T.Underlying().(*types.Map)
		if !ok {
			return Term{}, fmt.Errorf("%s of %s", e.Fun, x.T)
		}
		comp := vc.mapComp(mt)
		arr := fmt.Sprintf("(select %s %s)", vc.get(c.state(), comp), x.S)
		asort := fmt.Sprintf("(Array %s %s)", vc.sortOf(mt.Key()), vc.optSort(mt.Elem()))
		if e.Fun == "mapof" {
			return Term{arr, asort, nil}, nil
		}
		k, err := c.eval(e.Args[1])
		if err != nil {
			return Term{}, err
		}
		tk := typeKey(mt.Elem())
		if e.Fun == "mhas" {
			return Term{fmt.Sprintf("((_ is some_%s) (select %s %s))", tk, arr, k.S), "Bool", nil}, nil
		}
		return Term{fmt.Sprintf("(val_%s (select %s %s))", tk, arr, k.S), vc.sortOf(mt.Elem()), mt.Elem()}, nil
	case "str":
		// str(b): string(b) for a byte slice b
		x, err := c.eval(e.Args[0])
		if err != nil {
			return Term{}, err
		}
		if x.Sort != "Slice" {
			return Term{}, fmt.Errorf("str() of %s", x.Sort)
		}
		comp := vc.arrComp(types.Typ[types.Uint8])
		return Term{fmt.Sprintf("(str_of (select %s (sl_ref %s)) (sl_off %s) (sl_len %s))", vc.get(c.state(), comp), x.S, x.S, x.S), "Str", types.Typ[types.String]}, nil
	case "owned":
		x, err := c.eval(e.Args[0])
		if err != nil {
			return Term{}, err
		}
		return Term{fmt.Sprintf("(select %s %s)", vc.get(c.state(), vc.ownedComp()), x.S), "Bool", nil}, nil
	case "rdcanon", "wrcanon":
		x, err := c.eval(e.Args[0])
		if err != nil {
			return Term{}, err
		}
		return Term{vc.canon(strings.TrimSuffix(e.Fun, "canon"), x.S), "Int", nil}, nil
	case "chsent", "chclosed":
		x, err := c.eval(e.Args[0])
		if err != nil {
			return Term{}, err
		}
		if e.Fun == "chsent" {
			return Term{fmt.Sprintf("(select %s %s)", vc.get(c.state(), vc.chsentComp()), x.S), "Int", nil}, nil
		}
		vc.comp("$chclosed", "(Array Int Bool)")
		return Term{fmt.Sprintf("(select %s %s)", vc.get(c.state(), "$chclosed"), x.S), "Bool", nil}, nil
	case "chpos":
		x, err := c.eval(e.Args[0])
		if err != nil {
			return Term{}, err
		}
		return Term{fmt.Sprintf("(select %s %s)", vc.get(c.state(), vc.chposComp()), x.S), "Int", nil}, nil
	case "chlen":
		x, err := c.eval(e.Args[0])
		if err != nil {
			return Term{}, err
		}
		if x.T != nil {
			if ct, ok := x.T.Underlying().(*types.Chan); ok {
				vc.chelemFn(ct.Elem())
			}
		}
		vc.chelemFn(types.Typ[types.Int])
		return Term{fmt.Sprintf("(chlen %s)", x.S), "Int", nil}, nil
	case "chelem":
		x, err := c.eval(e.Args[0])
		if err != nil {
			return Term{}, err
		}
		if len(e.Args) == 3 {
			x.T = c.typeArg(e.Args[2])
		}
		if x.T == nil {
			return Term{}, fmt.Errorf("chelem of untyped channel")
		}
		ct, ok := x.T.Underlying().(*types.Chan)
		if !ok {
			return Term{}, fmt.Errorf("chelem of %s", x.T)
		}
		i, err := c.eval(e.Args[1])
		if err != nil {
			return Term{}, err
		}
		i = c.coerceLit(i, "Int")
		return Term{fmt.Sprintf("(%s %s %s)", vc.chelemFn(ct.Elem()), x.S, i.S), vc.sortOf(ct.Elem()), ct.Elem()}, nil
	case "dyntype":
		x, err := c.eval(e.Args[0])
		if err != nil {
			return Term{}, err
		}
		return Term{fmt.Sprintf("(dyntype %s)", x.S), "Int", nil}, nil
	case "typeid":
		// typeid(pkg.Type): the dynamic-type tag of a concrete (non-pointer) named type; typeidp for *T
		t := c.typeArg(e.Args[0])
		if t == nil {
			return Term{}, fmt.Errorf("typeid: unknown type %s", exprString(e.Args[0]))
		}
		return Term{vc.tid(t), "Int", nil}, nil
	case "typeidp":
		t := c.typeArg(e.Args[0])
		if t == nil {
			return Term{}, fmt.Errorf("typeidp: unknown type %s", exprString(e.Args[0]))
		}
		return Term{vc.tid(types.NewPointer(t)), "Int", nil}, nil
	case "unbox":
		// unbox(x, pkg.Type): the value of concrete type T stored in interface value x
		if len(e.Args) != 2 {
			return Term{}, fmt.Errorf("unbox(x, T)")
		}
		x, err := c.eval(e.Args[0])
		if err != nil {
			return Term{}, err
		}
		t := c.typeArg(e.Args[1])
		if t == nil {
			return Term{}, fmt.Errorf("unbox: unknown type %s", exprString(e.Args[1]))
		}
		_, unbox := vc.boxFns(t)
		return Term{fmt.Sprintf("(%s %s)", unbox, x.S), vc.sortOf(t), t}, nil
	case "unboxp":
		x, err := c.eval(e.Args[0])
		if err != nil {
			return Term{}, err
		}
		t := c.typeArg(e.Args[1])
		if t == nil {
			return Term{}, fmt.Errorf("unboxp: unknown type %s", exprString(e.Args[1]))
		}
		pt := types.NewPointer(t)
		_, unbox := vc.boxFns(pt)
		return Term{fmt.Sprintf("(%s %s)", unbox, x.S), "Int", pt}, nil
	case "box":
		// box(x): the interface value holding x (x must carry a Go type)
		x, err := c.eval(e.Args[0])
		if err != nil {
			return Term{}, err
		}
		if x.T == nil {
			return Term{}, fmt.Errorf("box of untyped term")
		}
		box, _ := vc.boxFns(x.T)
		return Term{fmt.Sprintf("(%s %s)", box, x.S), "Int", nil}, nil
	}
	if strings.HasPrefix(e.Fun, "istype_") || e.Fun == "istype" {
		return Term{}, fmt.Errorf("istype unsupported here")
	}
	return Term{}, fmt.Errorf("unknown function %s", e.Fun)
}

func (c *SpecCtx) convertInt(x Term, t types.Type, tw int, ts bool) (Term, error) {
	vc := c.vc
	if !vc.bv {
		if x.Sort != "Int" {
			return Term{}, fmt.Errorf("conversion of %s", x.Sort)
		}
		// spec conversions are value-preserving views (mathematical); typed for comparisons
		return Term{x.S, "Int", t}, nil
	}
	sort := fmt.Sprintf("(_ BitVec %d)", tw)
	if x.Sort == litSort {
		r := c.coerceLit(x, sort)
		r.T = t
		return r, nil
	}
	var fw int
	if _, err := fmt.Sscanf(x.Sort, "(_ BitVec %d)", &fw); err != nil {
		return Term{}, fmt.Errorf("conversion of %s", x.Sort)
	}
	switch {
	case fw == tw:
		return Term{x.S, sort, t}, nil
	case fw > tw:
		return Term{fmt.Sprintf("((_ extract %d 0) %s)", tw-1, x.S), sort, t}, nil
	default:
		return Term{c.extend(x, tw-fw), sort, t}, nil
	}
}

// typeArg resolves a type written in a spec (pkg.Name or Name of the contract's package).
func (c *SpecCtx) typeArg(e Expr) types.Type {
	if s, ok := e.(*EStr); ok {
		// a Go type expression, evaluated in the scope of the contract's package
		if p := c.vc.w.PkgByPath[longPkg(c.pkg)]; p != nil && p.Types != nil {
			if tv, err := types.Eval(c.vc.w.Fset, p.Types, token.NoPos, unquote(s.Val)); err == nil && tv.IsType() {
				return tv.Type
			}
		}
		return nil
	}
	name := exprName(e)
	if name == "" {
		return nil
	}
	return c.vc.lookupType(c.pkg, name)
}

// resolveLocal finds the SSA value bound to a source-level local name at a program point.
func (fr *Frame) resolveLocal(name string, b *ssa.BasicBlock, idx int, st *State) (Term, bool) {
	if b == nil {
		return Term{}, false
	}
	vc := fr.vc
	// walk up the dominator tree
	for blk, first := b, true; blk != nil; blk, first = blk.Idom(), false {
		hi := len(blk.Instrs)
		if first && idx > 0 && idx <= len(blk.Instrs) {
			hi = idx
		}
		if first && idx == 0 {
			// at block head: only phis of this block are visible
			for _, ins := range blk.Instrs {
				if phi, ok := ins.(*ssa.Phi); ok && phi.Comment == name {
					return fr.val(phi), true
				}
			}
			continue
		}
		for i := hi - 1; i >= 0; i-- {
			switch ins := blk.Instrs[i].(type) {
			case *ssa.DebugRef:
				if id, ok := ins.Expr.(interface{ String() string }); ok {
					_ = id
				}
				if ins.Object() != nil && ins.Object().Name() == name {
					if _, isVar := ins.Object().(*types.Var); !isVar {
						continue
					}
					if ins.IsAddr {
						lv := fr.lvalOf(ins.X)
						return vc.loadL(lv, st), true
					}
					if t, ok := fr.vals[ins.X]; ok && t.S != "" {
						return t, true
					}
					if _, isConst := ins.X.(*ssa.Const); isConst {
						return fr.val(ins.X), true
					}
				}
			case *ssa.Phi:
				if ins.Comment == name {
					return fr.val(ins), true
				}
			case *ssa.Alloc:
				if ins.Comment == name {
					return vc.loadL(fr.lvalOf(ins), st), true
				}
			}
		}
	}
	return Term{}, false
}
