package main

import (
	"bytes"
	"context"
	"fmt"
	"os"
	"os/exec"
	"path/filepath"
	"regexp"
	"runtime"
	"strings"
	"sync"
	"time"
)

type solverDef struct {
	name string
	args func(file string, timeoutS int) []string
}

var solvers = []solverDef{
	{"z3-new", func(f string, t int) []string { return []string{"z3-new", fmt.Sprintf("-T:%d", t), f} }},
	{"z3", func(f string, t int) []string { return []string{"z3", fmt.Sprintf("-T:%d", t), f} }},
	// the same solver under two other seeds: quantifier-instantiation order is seed-dependent and an
	// obligation that one run decides in a fraction of a second another run may not decide at all
	{"z3-new/seed7", func(f string, t int) []string { return []string{"z3-new", fmt.Sprintf("-T:%d", t), "smt.random_seed=7", f} }},
	{"z3-new/seed13", func(f string, t int) []string { return []string{"z3-new", fmt.Sprintf("-T:%d", t), "smt.random_seed=13", f} }},
	{"cvc5", func(f string, t int) []string {
		return []string{"cvc5", "--lang=smt2", fmt.Sprintf("--tlimit=%d", t*1000), "--produce-models", f}
	}},
}

// solverSlots bounds the number of solver processes running at once to the number of cores: a solver's
// time limit is wall-clock time, so an oversubscribed machine turns easy obligations into time-outs.
var solverSlots = make(chan struct{}, maxInt(4, runtime.NumCPU()))

func maxInt(a, b int) int {
	if a > b {
		return a
	}
	return b
}

// runCmdTimeout waits for a solver slot first and only then starts the clock.
func runCmdTimeout(argv []string, d time.Duration) (string, error) {
	solverSlots <- struct{}{}
	defer func() { <-solverSlots }()
	ctx, cancel := context.WithTimeout(context.Background(), d)
	defer cancel()
	cmd := exec.CommandContext(ctx, argv[0], argv[1:]...)
	var out bytes.Buffer
	cmd.Stdout = &out
	cmd.Stderr = &out
	t0 := time.Now()
	err := cmd.Run()
	if os.Getenv("RVC_TIMING") != "" {
		fmt.Fprintf(os.Stderr, "timing: %s %.1fs\n", strings.Join(argv, " "), time.Since(t0).Seconds())
	}
	return out.String(), err
}

func runCmd(ctx context.Context, argv []string) (string, error) {
	select {
	case solverSlots <- struct{}{}:
		defer func() { <-solverSlots }()
	case <-ctx.Done():
		return "", ctx.Err()
	}
	cmd := exec.CommandContext(ctx, argv[0], argv[1:]...)
	var out bytes.Buffer
	cmd.Stdout = &out
	cmd.Stderr = &out
	err := cmd.Run()
	return out.String(), err
}

// firstAnswer extracts sat/unsat/unknown answers from solver output.
func answers(out string) []string {
	var res []string
	for _, l := range strings.Split(out, "\n") {
		l = strings.TrimSpace(l)
		switch {
		case l == "sat" || l == "unsat" || l == "unknown" || l == "timeout":
			res = append(res, l)
		case strings.HasPrefix(l, "(error"):
			res = append(res, "error: "+l)
		}
	}
	return res
}

// cvc5 needs set-logic; z3 does not want one for our mixed theories.
func forSolver(name, script string) string {
	if name == "cvc5" {
		return "(set-logic ALL)\n" + script
	}
	return script
}

type solveCfg struct {
	workDir       string
	incTimeoutMs  int
	raceTimeoutS  int
	keep          bool
}

// solveVC discharges all obligations of a VC.
func solveVC(vc *VC, cfg solveCfg) {
	if len(vc.obligs) == 0 {
		return
	}
	base := filepath.Join(cfg.workDir, smtIdent(vc.name))
	var pending []*Oblig
	if vc.spec != nil && vc.spec.Standalone {
		pending = vc.obligs
	} else {
		var main, covers []*Oblig
		for _, ob := range vc.obligs {
			if ob.IsCover {
				covers = append(covers, ob)
			} else {
				main = append(main, ob)
			}
		}
		runInc := func(file, script string, obs []*Oblig, label string) bool {
			if len(obs) == 0 {
				return true
			}
			os.WriteFile(file, []byte(script), 0o644)
			t0 := time.Now()
			out, _ := runCmdTimeout([]string{"z3-new", file}, time.Duration(cfg.incTimeoutMs*len(obs)+20000)*time.Millisecond)
			if !cfg.keep {
				os.Remove(file)
			}
			el := time.Since(t0).Seconds()
			ans := answers(out)
			errs := 0
			for _, a := range ans {
				if strings.HasPrefix(a, "error") {
					errs++
				}
			}
			if errs > 0 || len(ans) != len(obs) {
				msg := firstError(out)
				for _, ob := range obs {
					ob.Status = "undecided"
					if ob.IsCover {
						ob.Status = "unknown"
					}
					ob.Output = "incremental script failed: " + msg
				}
				pending = append(pending, obs...)
				if errs > 0 && !strings.Contains(msg, "canceled") { // "canceled": z3's own time limit struck mid-command; the obligations are raced below
					vc.unsupportedf("SMT script error: %s", msg)
					return false
				}
				return true
			}
			per := el / float64(len(obs))
			for i, ob := range obs {
				ob.Solver = label
				ob.Seconds = per
				want := "unsat"
				if ob.IsCover {
					want = "sat"
				}
				switch {
				case ans[i] == want:
					ob.Status = "proved"
				case ob.IsCover:
					ob.Status = "unknown" // reachability not established here; raced below
					ob.Output = ans[i]
					pending = append(pending, ob)
				default:
					ob.Status = "undecided"
					ob.Output = ans[i]
					pending = append(pending, ob)
				}
			}
			return true
		}
		// the covers are decided side by side with the obligations (sharded too: sat checks are slow)
		covDone := make(chan bool, 1)
		var covPending []*Oblig
		go func() {
			ok := true
			const covShard = 6
			var cwg sync.WaitGroup
			var cmu sync.Mutex
			for lo := 0; lo < len(covers); lo += covShard {
				hi := lo + covShard
				if hi > len(covers) {
					hi = len(covers)
				}
				sh := covers[lo:hi]
				cwg.Add(1)
				go func(k int, sh []*Oblig) {
					defer cwg.Done()
					in := map[*Oblig]bool{}
					for _, ob := range sh {
						in[ob] = true
					}
					hdr := fmt.Sprintf("(set-option :timeout %d)\n", cfg.incTimeoutMs) + vc.header()
					script := dropQuantified(hdr + vc.incrementalBodyFor(func(o *Oblig) bool { return in[o] }))
					file := fmt.Sprintf("%s.cov%d.smt2", base, k)
					os.WriteFile(file, []byte(script), 0o644)
					t0 := time.Now()
					out, _ := runCmdTimeout([]string{"z3-new", file}, time.Duration(cfg.incTimeoutMs*len(sh)+20000)*time.Millisecond)
					if !cfg.keep {
						os.Remove(file)
					}
					per := time.Since(t0).Seconds() / float64(len(sh))
					ans := answers(out)
					cmu.Lock()
					defer cmu.Unlock()
					if len(ans) != len(sh) {
						for _, ob := range sh {
							ob.Status = "unknown"
							ob.Output = "cover script failed: " + firstError(out)
						}
						covPending = append(covPending, sh...)
						return
					}
					for i, ob := range sh {
						ob.Solver = "z3-new(incremental, ground facts)"
						ob.Seconds = per
						if ans[i] == "sat" {
							ob.Status = "proved"
						} else {
							ob.Status = "unknown"
							ob.Output = ans[i]
							covPending = append(covPending, ob)
						}
					}
				}(lo/covShard, sh)
			}
			cwg.Wait()
			covDone <- ok
		}()
		// a long function is cut into shards that are solved side by side: every shard carries all
		// declarations and assumptions (and assumes the obligations of the others exactly as the full
		// script does) but checks only its own obligations
		const shardSize = 24
		if len(main) <= shardSize+shardSize/2 {
			if !runInc(base+".inc.smt2", vc.incrementalScript(cfg.incTimeoutMs), main, "z3-new(incremental)") {
				return
			}
		} else {
			nsh := (len(main) + shardSize - 1) / shardSize
			if nsh > 16 {
				nsh = 16
			}
			shards := make([][]*Oblig, nsh)
			for i, ob := range main {
				k := i * nsh / len(main)
				shards[k] = append(shards[k], ob)
			}
			okAll := true
			var mu sync.Mutex
			var wg sync.WaitGroup
			for k, sh := range shards {
				wg.Add(1)
				go func(k int, sh []*Oblig) {
					defer wg.Done()
					in := map[*Oblig]bool{}
					for _, ob := range sh {
						in[ob] = true
					}
					hdr := fmt.Sprintf("(set-option :timeout %d)\n", cfg.incTimeoutMs) + vc.header()
					script := vc.withAxioms(hdr, vc.incrementalBodyFor(func(o *Oblig) bool { return in[o] }))
					var local []*Oblig
					ok := func() bool {
						// runInc appends to `pending`: serialise that part
						file := fmt.Sprintf("%s.inc%d.smt2", base, k)
						os.WriteFile(file, []byte(script), 0o644)
						t0 := time.Now()
						out, _ := runCmdTimeout([]string{"z3-new", file}, time.Duration(cfg.incTimeoutMs*len(sh)+20000)*time.Millisecond)
						if !cfg.keep {
							os.Remove(file)
						}
						el := time.Since(t0).Seconds()
						ans := answers(out)
						errs := 0
						for _, a := range ans {
							if strings.HasPrefix(a, "error") {
								errs++
							}
						}
						if errs > 0 || len(ans) != len(sh) {
							msg := firstError(out)
							for _, ob := range sh {
								ob.Status = "undecided"
								ob.Output = "incremental script failed: " + msg
							}
							local = append(local, sh...)
							if errs > 0 && !strings.Contains(msg, "canceled") {
								mu.Lock()
								vc.unsupportedf("SMT script error: %s", msg)
								mu.Unlock()
								return false
							}
							return true
						}
						per := el / float64(len(sh))
						for i, ob := range sh {
							ob.Solver = "z3-new(incremental)"
							ob.Seconds = per
							if ans[i] == "unsat" {
								ob.Status = "proved"
							} else {
								ob.Status = "undecided"
								ob.Output = ans[i]
								local = append(local, ob)
							}
						}
						return true
					}()
					mu.Lock()
					pending = append(pending, local...)
					if !ok {
						okAll = false
					}
					mu.Unlock()
				}(k, sh)
			}
			wg.Wait()
			if !okAll {
				return
			}
		}
		<-covDone
		pending = append(pending, covPending...)
	}
	// race the rest
	var wg sync.WaitGroup
	sem := make(chan struct{}, 8)
	for i, ob := range pending {
		wg.Add(1)
		go func(i int, ob *Oblig) {
			defer wg.Done()
			sem <- struct{}{}
			defer func() { <-sem }()
			raceOne(vc, ob, fmt.Sprintf("%s.%d", base, i), cfg)
		}(i, ob)
	}
	wg.Wait()
}

func firstError(out string) string {
	for _, l := range strings.Split(out, "\n") {
		if strings.Contains(l, "error") {
			return strings.TrimSpace(l)
		}
	}
	if len(out) > 300 {
		return out[:300]
	}
	return out
}

func raceOne(vc *VC, ob *Oblig, base string, cfg solveCfg) {
	script := vc.standaloneScript(ob, true)
	type res struct {
		solver string
		ans    string
		out    string
		secs   float64
	}
	ctx, cancel := context.WithCancel(context.Background())
	defer cancel()
	tmo := cfg.raceTimeoutS
	if ob.IsCover && tmo > 4 {
		tmo = 4
	}
	racers := solvers
	if !ob.IsCover {
		// one more racer: the same goal without the quantified background axioms (lemmas about
		// uninterpreted helper functions). Fewer assumptions, so only its `unsat` counts; it decides the
		// goals that do not need those lemmas but are slowed down by them (e.g. the ceil-division
		// lemma turns linear arithmetic into nonlinear arithmetic).
		racers = append(append([]solverDef{}, solvers...), solverDef{"z3-new/noax", solvers[0].args})
	}
	ch := make(chan res, len(racers))
	for _, s := range racers {
		s := s
		go func() {
			f := fmt.Sprintf("%s.%s.smt2", base, strings.ReplaceAll(s.name, "/", "_"))
			sc := forSolver(s.name, script)
			if s.name == "z3-new/noax" {
				body := vc.standaloneBody(ob, true)
				if strings.HasSuffix(script, body) {
					sc = dropQuantified(script[:len(script)-len(body)]) + body
				}
			}
			os.WriteFile(f, []byte(sc), 0o644)
			t0 := time.Now()
			out, _ := runCmd(ctx, s.args(f, tmo))
			if !cfg.keep {
				os.Remove(f)
			}
			a := answers(out)
			ans := "unknown"
			if len(a) > 0 {
				ans = a[0]
			}
			ch <- res{s.name, ans, out, time.Since(t0).Seconds()}
		}()
	}
	want, bad := "unsat", "sat"
	if ob.IsCover {
		want, bad = "sat", "unsat"
	}

	var outs []string
	for range racers {
		r := <-ch
		outs = append(outs, fmt.Sprintf("%s: %s (%.2fs)", r.solver, r.ans, r.secs))
		if r.solver == "z3-new/noax" && r.ans != want {
			continue
		}
		if r.ans == want {
			ob.Status = "proved"
			ob.Solver = r.solver
			ob.Seconds = r.secs
			ob.Output = ""
			return
		}
		if r.ans == bad {
			ob.Status = "refuted"
			ob.Solver = r.solver
			ob.Seconds = r.secs
			ob.Model = r.out
			ob.Output = strings.Join(outs, "; ")
			return
		}
	}
	ob.Status = "undecided"
	if !ob.IsCover {
		// case analysis over the in-place / reallocating outcomes of the appends on the path: with the
		// outcome fixed the solver's preprocessing removes the conditional array terms that block
		// quantifier instantiation. Complete (every combination is tried), hence sound.
		if caseSplitAppends(vc, ob, base, cfg, script) {
			ob.Status = "proved"
			ob.Solver = "z3-new (case split over append outcomes)"
			ob.Output = ""
			return
		}
	}
	if ob.IsCover {
		ob.Status = "unknown"
		// reachability is a vacuity check on the contracts: retry without the quantified background
		// axioms (which only constrain uninterpreted helper functions), where `sat` is decidable
		f := base + ".noax.smt2"
		os.WriteFile(f, []byte(dropQuantified(vc.header()+vc.standaloneBody(ob, false))), 0o644)
		out, _ := runCmdTimeout([]string{"z3-new", fmt.Sprintf("-T:%d", cfg.raceTimeoutS), f}, time.Duration(cfg.raceTimeoutS+5)*time.Second)
		if !cfg.keep {
			os.Remove(f)
		}
		if a := answers(out); len(a) > 0 && a[0] == "sat" {
			ob.Status = "proved"
			ob.Solver = "z3-new (without quantified background axioms)"
		}
	} else {
		// all solvers said unknown: with the quantified background axioms removed the query is in a
		// decidable fragment; a model found there is a candidate counterexample (to be replayed)
		f := base + ".noax.smt2"
		os.WriteFile(f, []byte("(set-option :produce-models true)\n"+vc.header()+vc.standaloneBody(ob, true)), 0o644)
		out, _ := runCmdTimeout([]string{"z3-new", fmt.Sprintf("-T:%d", cfg.raceTimeoutS), f}, time.Duration(cfg.raceTimeoutS+5)*time.Second)
		if !cfg.keep {
			os.Remove(f)
		}
		if a := answers(out); len(a) > 0 && a[0] == "sat" {
			ob.Status = "refuted"
			ob.Solver = "z3-new (candidate model; quantified background axioms dropped)"
			ob.Model = out
		}
	}
	ob.Output = strings.Join(outs, "; ")
}

// dropQuantified removes every top-level assertion that contains a quantifier (used only for
// reachability covers: with fewer assumptions `sat` is decidable; the check then guards against
// contradictions among the quantifier-free facts — preconditions, path conditions, ground invariants).
func dropQuantified(script string) string {
	var sb strings.Builder
	for _, l := range strings.Split(script, "\n") {
		if strings.HasPrefix(l, "(assert ") && (strings.Contains(l, "(forall ") || strings.Contains(l, "(exists ")) {
			continue
		}
		sb.WriteString(l)
		sb.WriteString("\n")
	}
	return sb.String()
}

var inplaceRe = regexp.MustCompile(`\(define-fun (inplace![0-9]+) \(\) Bool`)

func caseSplitAppends(vc *VC, ob *Oblig, base string, cfg solveCfg, script string) bool {
	ms := inplaceRe.FindAllStringSubmatch(script, -1)
	if len(ms) == 0 || len(ms) > 3 {
		return false
	}
	i := strings.LastIndex(script, "(check-sat)")
	if i < 0 {
		return false
	}
	head := script[:i]
	n := len(ms)
	results := make([]bool, 1<<n)
	var wg sync.WaitGroup
	for mask := 0; mask < 1<<n; mask++ {
		wg.Add(1)
		go func(mask int) {
			defer wg.Done()
			var sb strings.Builder
			sb.WriteString(head)
			for k, m := range ms {
				if mask&(1<<k) != 0 {
					fmt.Fprintf(&sb, "(assert %s)\n", m[1])
				} else {
					fmt.Fprintf(&sb, "(assert (not %s))\n", m[1])
				}
			}
			sb.WriteString("(check-sat)\n")
			f := fmt.Sprintf("%s.case%d.smt2", base, mask)
			os.WriteFile(f, []byte(sb.String()), 0o644)
			out, _ := runCmdTimeout([]string{"z3-new", fmt.Sprintf("-T:%d", cfg.raceTimeoutS), f}, time.Duration(cfg.raceTimeoutS+5)*time.Second)
			if !cfg.keep {
				os.Remove(f)
			}
			a := answers(out)
			results[mask] = len(a) > 0 && a[0] == "unsat"
		}(mask)
	}
	wg.Wait()
	for _, r := range results {
		if !r {
			return false
		}
	}
	return true
}
