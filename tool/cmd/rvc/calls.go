package main

import (
	"fmt"
	"go/token"
	"go/types"
	"sort"
	"strings"

	"golang.org/x/tools/go/ssa"
)

// calleeKey computes the contract key for a call.
func (fr *Frame) calleeKey(cc *ssa.CallCommon) (key string, static *ssa.Function) {
	if cc.IsInvoke() {
		t := cc.Value.Type()
		if n, ok := t.(*types.Named); ok {
			pkg := ""
			if n.Obj().Pkg() != nil {
				pkg = shortPkg(n.Obj().Pkg().Path())
			}
			if pkg == "" {
				return n.Obj().Name() + "." + cc.Method.Name(), nil // error.Error
			}
			return pkg + "." + n.Obj().Name() + "." + cc.Method.Name(), nil
		}
		return "iface." + cc.Method.Name(), nil
	}
	switch v := cc.Value.(type) {
	case *ssa.Function:
		return qualName(v), v
	case *ssa.MakeClosure:
		f := v.Fn.(*ssa.Function)
		return qualName(f), f
	}
	return "", nil
}

// lookupSpec finds a contract; interface methods embedded from other interfaces are searched too.
func (vc *VC) lookupSpec(key string) *FuncSpec {
	if s, ok := vc.db.Funcs[key]; ok {
		return s
	}
	return nil
}

// callerView: a function whose contract is declared `effects_private` touches only state that is
// private to its own package (unexported package-level tables and ghost state declared private to
// it). Callers in other packages can neither observe nor depend on any of it, so they see the call
// as effect-free — as they would a trusted library call — instead of carrying its frame and its
// quantified post-conditions through every proof.
var stubSpecs = map[string]*FuncSpec{}

func (vc *VC) callerView(spec *FuncSpec) *FuncSpec {
	if spec == nil || !spec.EffectsPrivate || vc.top == nil || vc.top.Pkg == nil {
		return spec
	}
	if shortPkg(vc.top.Pkg.Pkg.Path()) == spec.Pkg {
		return spec
	}
	if st, ok := stubSpecs[spec.Key]; ok {
		return st
	}
	st := &FuncSpec{Key: spec.Key, Pkg: spec.Pkg, Trusted: true, Loops: map[int]*LoopSpec{}, File: spec.File, Line: spec.Line, Params: spec.Params, Results: spec.Results}
	stubSpecs[spec.Key] = st
	return st
}

func (fr *Frame) callModifies(ins ssa.CallInstruction) ([]string, bool) {
	vc := fr.vc
	cc := ins.Common()
	if b, ok := cc.Value.(*ssa.Builtin); ok {
		switch b.Name() {
		case "append":
			et := cc.Args[0].Type().Underlying().(*types.Slice).Elem()
			return []string{vc.arrComp(et), "$alloc"}, true
		case "copy":
			et := cc.Args[0].Type().Underlying().(*types.Slice).Elem()
			return []string{vc.arrComp(et)}, true
		case "delete":
			return []string{vc.mapComp(cc.Args[0].Type().Underlying().(*types.Map)), vc.mapLenComp()}, true
		case "close":
			vc.comp("$chclosed", "(Array Int Bool)")
			return []string{"$chclosed"}, true
		case "recover":
			return []string{"$panic"}, true
		}
		return nil, true
	}
	key, static := fr.calleeKey(cc)
	if native, ok := nativeCalls[key]; ok {
		return native.modifies(fr, cc), true
	}
	spec := vc.callerView(vc.lookupSpec(key))
	if spec == nil {
		if static != nil && static.Parent() != nil {
			// closure: conservatively everything
			return nil, false
		}
		return nil, false
	}
	out := []string{"$alloc"}
	for _, m := range spec.Modifies {
		out = append(out, vc.modComp(m, spec, fr, cc)...)
	}
	if len(spec.Releases) > 0 {
		out = append(out, vc.ownedComp())
	}
	rs := cc.Signature().Results()
	for i := 0; i < rs.Len(); i++ {
		if vc.isPooledPtr(rs.At(i).Type()) {
			out = append(out, vc.ownedComp())
		}
	}
	return out, true
}

// modComp maps a modifies-expression to the state component it lives in.
func (vc *VC) modComp(m Expr, spec *FuncSpec, fr *Frame, cc *ssa.CallCommon) []string {
	switch m := m.(type) {
	case *EIdent:
		for _, g := range vc.db.Ghosts {
			if g.Name == m.Name {
				vc.comp(g.Name, g.Sort)
				return []string{g.Name}
			}
		}
		// package-level variable of the spec's package
		if p := vc.w.PkgByPath[longPkg(spec.Pkg)]; p != nil && p.Types != nil {
			if obj := p.Types.Scope().Lookup(m.Name); obj != nil {
				if sp := vc.ssaPkg(p.PkgPath); sp != nil {
					if g, ok := sp.Members[m.Name].(*ssa.Global); ok {
						return []string{vc.globalComp(g)}
					}
				}
			}
		}
		if m.Name == "$rdpos" {
			return []string{vc.rdposComp()}
		}
		if m.Name == "$chpos" {
			return []string{vc.chposComp()}
		}
		if m.Name == "$wr" || m.Name == "$wrlen" || m.Name == "$wrflush" {
			vc.wrComps()
			return []string{m.Name}
		}
		if strings.HasPrefix(m.Name, "$") {
			vc.comp(m.Name, "Int")
			return []string{m.Name}
		}
	case *EIndex:
		return vc.modComp(m.X, spec, fr, cc)
	case *ECall:
		if m.Fun == "mem" && len(m.Args) == 1 {
			// mem(T): all objects of Go type T in the spec's package, or mem(byte) etc.
			name := exprName(m.Args[0])
			if t := vc.lookupType(spec.Pkg, name); t != nil {
				return []string{vc.memComp(t)}
			}
		}
		if m.Fun == "arr" && len(m.Args) == 1 {
			name := exprName(m.Args[0])
			if t := vc.lookupType(spec.Pkg, name); t != nil {
				return []string{vc.arrComp(t)}
			}
		}
	case *ESel:
		// p.f : field of struct pointed to by p — component of the struct type; resolved by name of field owner
		// find the struct type by evaluating the base's static type from the signature
		if t := vc.staticTypeOf(m.X, spec, fr, cc); t != nil {
			if pt, ok := t.Underlying().(*types.Pointer); ok {
				return []string{vc.memComp(pt.Elem())}
			}
		}
	}
	vc.unsupportedf("modifies clause %s of %s not understood", exprString(m), spec.Key)
	return nil
}

func (vc *VC) ssaPkg(path string) *ssa.Package {
	if sp := vc.w.SSAPkgs[path]; sp != nil {
		return sp
	}
	return vc.w.Prog.ImportedPackage(path)
}

func (vc *VC) lookupType(pkg, name string) types.Type {
	if obj := types.Universe.Lookup(name); obj != nil {
		if tn, ok := obj.(*types.TypeName); ok {
			return tn.Type()
		}
	}
	if i := strings.LastIndex(name, "."); i >= 0 {
		pkg, name = name[:i], name[i+1:]
		for path := range vc.w.PkgByPath {
			if path == pkg || strings.HasSuffix(path, "/"+pkg) {
				pkg = path
				break
			}
		}
	}
	p := vc.w.PkgByPath[longPkg(pkg)]
	if p == nil || p.Types == nil {
		return nil
	}
	if obj := p.Types.Scope().Lookup(name); obj != nil {
		if tn, ok := obj.(*types.TypeName); ok {
			return tn.Type()
		}
	}
	return nil
}

func (vc *VC) staticTypeOf(e Expr, spec *FuncSpec, fr *Frame, cc *ssa.CallCommon) types.Type {
	id, ok := e.(*EIdent)
	if !ok {
		return nil
	}
	names, typs := vc.formals(spec, cc)
	for i, n := range names {
		if n == id.Name {
			return typs[i]
		}
	}
	return nil
}

// formals returns the names and types of receiver+params of a callee.
func (vc *VC) formals(spec *FuncSpec, cc *ssa.CallCommon) ([]string, []types.Type) {
	sig := cc.Signature()
	var names []string
	var typs []types.Type
	if cc.IsInvoke() {
		names = append(names, "this")
		typs = append(typs, cc.Value.Type())
	} else if sig.Recv() != nil {
		n := sig.Recv().Name()
		if n == "" || n == "_" {
			n = "this"
		}
		names = append(names, n)
		typs = append(typs, sig.Recv().Type())
	}
	for i := 0; i < sig.Params().Len(); i++ {
		p := sig.Params().At(i)
		n := p.Name()
		if n == "" || n == "_" {
			n = fmt.Sprintf("arg%d", i)
		}
		names = append(names, n)
		typs = append(typs, p.Type())
	}
	if spec != nil && len(spec.Params) > 0 {
		off := len(names) - sig.Params().Len()
		// spec.Params may name receiver+params or just params
		if len(spec.Params) == len(names) {
			copy(names, spec.Params)
		} else {
			for i := 0; i < len(spec.Params) && off+i < len(names); i++ {
				names[off+i] = spec.Params[i]
			}
		}
	}
	return names, typs
}

func resultNames(spec *FuncSpec, sig *types.Signature) []string {
	var out []string
	n := sig.Results().Len()
	for i := 0; i < n; i++ {
		name := sig.Results().At(i).Name()
		if spec != nil && i < len(spec.Results) {
			name = spec.Results[i]
		}
		out = append(out, name)
	}
	return out
}

// argTerms evaluates call arguments (receiver first for invoke).
func (fr *Frame) argTerms(cc *ssa.CallCommon) []Term {
	var out []Term
	if cc.IsInvoke() {
		out = append(out, fr.val(cc.Value))
	}
	for _, a := range cc.Args {
		out = append(out, fr.argTerm(a))
	}
	return out
}

func (fr *Frame) argTerm(a ssa.Value) Term {
	if t, ok := fr.vals[a]; ok && t.S != "" {
		return t
	}
	if lv, ok := fr.lvals[a]; ok {
		// The address of an element or field is never nil: forming it (IndexAddr / FieldAddr) has its
		// own bounds and nil-dereference obligations at the point where it is formed.
		at := fr.vc.addrTerm(lv)
		fr.vc.assumeIf(fr.curReach, fmt.Sprintf("(not (= %s 0))", at))
		return Term{at, "Int", a.Type()}
	}
	if g, ok := a.(*ssa.Global); ok {
		return Term{fr.vc.addrTerm(&LVal{Comp: fr.vc.globalComp(g)}), "Int", a.Type()}
	}
	return fr.val(a)
}

// addrTerm gives interior pointers an identity (used for locks and similar).
func (vc *VC) addrTerm(lv *LVal) string {
	if !vc.declared["faddr"] {
		vc.declared["faddr"] = true
		vc.decls = append(vc.decls, "(declare-fun faddr (Int Int) Int)", "(declare-fun gaddr (Int) Int)", "(declare-fun iaddr (Int Int) Int)")
	}
	var base string
	if lv.Ref == "" {
		k := vc.pathID("G:" + lv.Comp)
		base = fmt.Sprintf("(gaddr %d)", k)
	} else {
		base = lv.Ref
	}
	for _, pe := range lv.Path {
		if pe.field >= 0 {
			k := vc.pathID(fmt.Sprintf("%s.%d", typeKey(pe.structT), pe.field))
			base = fmt.Sprintf("(faddr %s %d)", base, k)
		} else {
			base = fmt.Sprintf("(iaddr %s %s)", base, vc.toIntS(pe.idx))
		}
	}
	return base
}

func (vc *VC) pathID(s string) int {
	k, ok := vc.tids["path:"+s]
	if !ok {
		k = len(vc.tids) + 1
		vc.tids["path:"+s] = k
	}
	return k
}

func (fr *Frame) execCall(ins *ssa.Call, st *State) {
	cc := ins.Common()
	if b, ok := cc.Value.(*ssa.Builtin); ok {
		fr.execBuiltin(ins, b, st)
		return
	}
	res := fr.doCall(ins, cc, st, ins.Pos())
	fr.bindResults(ins, res)
}

// recordCallRet names call results so that known-finding regions can refer to them.
func (fr *Frame) recordCallRet(cc *ssa.CallCommon, res []Term) {
	if len(res) == 0 {
		return
	}
	top := fr.vc.topFrame
	if top == nil {
		return
	}
	if top.callRets == nil {
		top.callRets = map[string]Term{}
		top.callCnt = map[string]int{}
		top.callReach = map[string]string{}
	}
	name := ""
	if cc.IsInvoke() {
		name = cc.Method.Name()
		if u, ok := cc.Value.(*ssa.UnOp); ok {
			if fa, ok := u.X.(*ssa.FieldAddr); ok {
				name = fieldName(fa.X.Type().Underlying().(*types.Pointer).Elem(), fa.Field) + "_" + name
			}
		}
	} else if f, ok := cc.Value.(*ssa.Function); ok {
		name = f.Name()
	}
	if name == "" {
		return
	}
	k := top.callCnt[name]
	top.callCnt[name] = k + 1
	top.callRets[fmt.Sprintf("%s_%d", name, k)] = res[len(res)-1]
	top.callReach[fmt.Sprintf("%s_%d", name, k)] = fr.curReach
	for i, r := range res {
		top.callRets[fmt.Sprintf("%d_%s_%d", i, name, k)] = r
		top.callReach[fmt.Sprintf("%d_%s_%d", i, name, k)] = fr.curReach
	}
}

func (fr *Frame) bindResults(ins *ssa.Call, res []Term) {
	fr.recordCallRet(ins.Common(), res)
	sig := ins.Common().Signature()
	switch sig.Results().Len() {
	case 0:
		fr.vals[ins] = Term{"unit", "Unit", ins.Type()}
	case 1:
		if len(res) == 1 {
			fr.vals[ins] = Term{res[0].S, res[0].Sort, ins.Type()}
		}
	default:
		fr.tupleParts[ins] = res
		fr.vals[ins] = Term{"tuple", "tuple", ins.Type()}
	}
}

// doCall handles a non-builtin call; returns result terms.
func (fr *Frame) doCall(ins ssa.Instruction, cc *ssa.CallCommon, st *State, pos token.Pos) []Term {
	vc := fr.vc
	key, static := fr.calleeKey(cc)
	sig := cc.Signature()
	freshResults := func() []Term {
		var out []Term
		for i := 0; i < sig.Results().Len(); i++ {
			out = append(out, vc.freshVal(fmt.Sprintf("%s_ret%d", fr.id, i), sig.Results().At(i).Type(), fr.curReach))
		}
		return out
	}
	if cc.IsInvoke() {
		fr.nilCheck(fr.val(cc.Value).S, "method call on nil interface "+cc.Value.Name()+"."+cc.Method.Name(), pos)
	}
	if native, ok := nativeCalls[key]; ok {
		fr.atCallAsserts(key, cc, st, pos)
		return native.exec(fr, cc, st, pos)
	}
	spec := vc.callerView(vc.lookupSpec(key))
	if spec != nil {
		return fr.applyContract(spec, cc, st, pos)
	}
	// closure called directly or deferred: inline
	if mc, ok := cc.Value.(*ssa.MakeClosure); ok {
		return fr.inlineClosure(mc, cc.Args, st, pos)
	}
	if static != nil && static.Parent() != nil && len(static.FreeVars) == 0 {
		// anonymous function without captures
	}
	if static != nil && static.Pkg != nil && strings.HasPrefix(static.Pkg.Pkg.Path(), repoModule) {
		// repo callee without contract: havoc everything reachable
		vc.weak[key] = true
		for c := range vc.comps {
			if c != "$alloc" {
				vc.havoc(st, c)
			}
		}
		vc.bumpAlloc(st, fr.curReach)
		return freshResults()
	}
	if key == "" {
		// a call through a value of a named function type that carries a contract of its own (keyed
		// by the type, e.g. orcas.OrcaConst): every function of that type in the repository is checked
		// against the same clauses, so the call site may rely on them
		if n, ok := cc.Value.Type().(*types.Named); ok && n.Obj().Pkg() != nil {
			if ts := vc.lookupSpec(shortPkg(n.Obj().Pkg().Path()) + "." + n.Obj().Name()); ts != nil {
				return fr.applyContract(ts, cc, st, pos)
			}
		}
		// a call through a function value: an arbitrary function — everything reachable may change and
		// the results are unconstrained beyond their types (listed as a weak callee in the evidence)
		vc.weak[fmt.Sprintf("function value of type %s", cc.Value.Type())] = true
		for c := range vc.comps {
			if c != "$alloc" {
				vc.havoc(st, c)
			}
		}
		vc.bumpAlloc(st, fr.curReach)
		return freshResults()
	} else {
		vc.unsupportedf("call of %s without contract at %s", key, vc.posOf(pos))
	}
	return freshResults()
}

func (vc *VC) bumpAlloc(st *State, reach string) {
	c := vc.allocComp()
	old := vc.get(st, c)
	n := vc.havoc(st, c)
	vc.assumeIf(reach, fmt.Sprintf("(>= %s %s)", n, old))
}

// applyContract: assert requires, havoc modifies, assume ensures.
func (fr *Frame) applyContract(spec *FuncSpec, cc *ssa.CallCommon, st *State, pos token.Pos) []Term {
	vc := fr.vc
	vc.callees[spec.Key] = true
	sig := cc.Signature()
	names, typs := vc.formals(spec, cc)
	args := fr.argTerms(cc)
	env := map[string]Term{}
	for i, n := range names {
		if i < len(args) {
			a := args[i]
			a.T = typs[i]
			env[n] = a
		}
	}
	// implicit: pointer receivers of static calls are non-nil
	if !cc.IsInvoke() && sig.Recv() != nil {
		if _, ok := sig.Recv().Type().Underlying().(*types.Pointer); ok && len(args) > 0 {
			if _, interior := fr.lvals[cc.Args[0]]; !interior {
				fr.nilCheck(args[0].S, "method call on nil pointer "+spec.Key, pos)
			}
		}
	}
	// pooled objects passed to a callee must be owned
	for i, a := range cc.Args {
		if vc.isPooledPtr(a.Type()) {
			if _, interior := fr.lvals[a]; !interior {
				off := 0
				if cc.IsInvoke() {
					off = 1
				}
				if i+off < len(args) {
					fr.requireOwnedOrNil(args[i+off].S, "argument of "+spec.Key, pos, st)
				}
			}
		}
	}
	// at-call assertions of the *caller*
	fr.atCallAsserts(spec.Key, cc, st, pos)
	oldSt := st.clone()
	mk := func(cur *State) *SpecCtx {
		c := &SpecCtx{vc: vc, env: env, st: cur, old: oldSt, pkg: spec.Pkg}
		return c
	}
	for _, l := range spec.Lets {
		t, err := mk(oldSt).eval(l.E)
		if err != nil {
			vc.unsupportedf("let of %s: %v", spec.Key, err)
			continue
		}
		n := vc.fresh("let_" + l.Name)
		vc.define(n, t.Sort, t.S)
		env[l.Name] = Term{n, t.Sort, t.T}
	}
	for _, rq := range spec.Requires {
		g, err := mk(st).evalBool(rq.E)
		if err != nil {
			vc.unsupportedf("requires of %s: %v", spec.Key, err)
			continue
		}
		tags := rq.Tags
		if len(tags) == 0 {
			tags = fr.autoTags()
		} else {
			tags = intersectOrAll(tags, fr.autoTags())
		}
		vc.oblige("precondition", tags, fr.curReach, g, fmt.Sprintf("precondition of %s: %s", spec.Key, rq.Text), pos, rq)
	}
	// havoc
	for _, m := range spec.Modifies {
		fr.havocLoc(m, spec, cc, env, st, oldSt)
	}
	vc.bumpAlloc(st, fr.curReach)
	// results
	var res []Term
	rnames := resultNames(spec, sig)
	for i := 0; i < sig.Results().Len(); i++ {
		t := vc.freshVal(fmt.Sprintf("%s_%s_r%d", fr.id, smtIdent(lastSeg(spec.Key)), i), sig.Results().At(i).Type(), fr.curReach)
		res = append(res, t)
		if rnames[i] != "" && rnames[i] != "_" {
			env[rnames[i]] = t
		}
		env[fmt.Sprintf("result%d", i)] = t
		if i == 0 {
			env["result"] = t
		}
		fr.resultPtrFact(t, st)
	}
	for _, rel := range spec.Releases {
		if t, ok := env[rel]; ok {
			oc := vc.ownedComp()
			vc.set(st, oc, fmt.Sprintf("(store %s %s false)", vc.get(st, oc), t.S))
		}
	}
	for _, r := range res {
		if r.T != nil && vc.isPooledPtr(r.T) {
			oc := vc.ownedComp()
			vc.set(st, oc, fmt.Sprintf("(store %s %s true)", vc.get(st, oc), r.S))
		}
	}
	// panic edge
	if spec.PanicsMay {
		pk := vc.fresh("panics")
		vc.declare(pk, "Bool")
		pv := vc.fresh("panicval")
		vc.declare(pv, "Int")
		vc.assume(fmt.Sprintf("(> %s 0)", pv))
		pst := st.clone()
		fr.panicExit(pst, and(fr.curReach, pk), pv, pos, false)
		nr := vc.fresh(fr.id + "_r")
		vc.define(nr, "Bool", and(fr.curReach, fmt.Sprintf("(not %s)", pk)))
		fr.curReach = nr
	}
	for _, en := range spec.Ensures {
		g, err := mk(st).evalBool(en.E)
		if err != nil {
			if (spec.Arith == "bv") != vc.bv {
				// the callee is verified in the other arithmetic (bit-vectors vs integers): a post-condition
				// that cannot be restated here is simply not available to this caller (weaker, still sound)
				vc.note("post-condition of %s not available in this arithmetic mode: %s", spec.Key, en.Text)
				continue
			}
			vc.unsupportedf("ensures of %s: %v", spec.Key, err)
			continue
		}
		vc.assumeIf(fr.curReach, g)
	}
	for _, as := range spec.Assumes {
		g, err := mk(st).evalBool(as.E)
		if err != nil {
			vc.unsupportedf("assumes of %s: %v", spec.Key, err)
			continue
		}
		vc.assumeIf(fr.curReach, g)
		vc.note("assumed (not proved) about %s: %s", spec.Key, as.Text)
	}
	for _, el := range spec.Elems {
		ctx := mk(st.clone())
		ch, err := ctx.eval(el.Chan)
		if err != nil {
			vc.unsupportedf("elem clause of %s: %v", spec.Key, err)
			continue
		}
		top := vc.topFrame
		if top == nil {
			top = fr
		}
		top.chanFacts = append(top.chanFacts, &chanFact{ch: ch.S, ctx: ctx, v: el.Var, body: el.Clause.E, text: el.Clause.Text})
	}
	return res
}

// instantiateChanFacts assumes the recorded per-element facts for element `pos` of channel c.
func (fr *Frame) instantiateChanFacts(c Term, pos string, guard string) {
	vc := fr.vc
	top := vc.topFrame
	if top == nil {
		top = fr
	}
	for _, cf := range top.chanFacts {
		c2 := *cf.ctx
		c2.env = map[string]Term{}
		for k, v := range cf.ctx.env {
			c2.env[k] = v
		}
		c2.env[cf.v] = Term{pos, "Int", types.Typ[types.Int]}
		g, err := c2.evalBool(cf.body)
		if err != nil {
			vc.unsupportedf("elem clause %q: %v", cf.text, err)
			continue
		}
		vc.assumeIf(and(fr.curReach, guard, fmt.Sprintf("(= %s %s)", c.S, cf.ch)), g)
	}
}

func intersectOrAll(tags, own []string) []string {
	var out []string
	for _, t := range tags {
		if contains(own, t) {
			out = append(out, t)
		}
	}
	if len(out) == 0 {
		return own
	}
	return out
}

func lastSeg(k string) string {
	if i := strings.LastIndex(k, "."); i >= 0 {
		return k[i+1:]
	}
	return k
}

func (fr *Frame) resultPtrFact(t Term, st *State) {
	vc := fr.vc
	if t.T == nil {
		return
	}
	switch t.T.Underlying().(type) {
	case *types.Pointer, *types.Chan, *types.Map:
		vc.assumeIf(fr.curReach, fmt.Sprintf("(< %s %s)", t.S, vc.get(st, vc.allocComp())))
	case *types.Slice:
		vc.assumeIf(fr.curReach, fmt.Sprintf("(< (sl_ref %s) %s)", t.S, vc.get(st, vc.allocComp())))
	}
}

// havocLoc havocs the location designated by a modifies expression.
func (fr *Frame) havocLoc(m Expr, spec *FuncSpec, cc *ssa.CallCommon, env map[string]Term, st, oldSt *State) {
	vc := fr.vc
	switch m := m.(type) {
	case *EIndex:
		// g[i]: only element i of a ghost array changes
		comps := vc.modComp(m.X, spec, fr, cc)
		if len(comps) == 1 {
			ctx := &SpecCtx{vc: vc, env: env, st: oldSt, old: oldSt, pkg: spec.Pkg}
			i, err := ctx.eval(m.I)
			if err == nil {
				comp := comps[0]
				old := vc.get(st, comp)
				n, _ := readSx(vc.comps[comp])
				elemSort := n.list[2].String()
				i = ctx.coerceLit(i, n.list[1].String())
				switch comp {
				case "$rdpos":
					i.S = vc.canon("rd", i.S)
				case "$wr", "$wrlen", "$wrflush":
					i.S = vc.canon("wr", i.S)
				}
				f := vc.fresh("hv")
				vc.declare(f, elemSort)
				vc.set(st, comp, fmt.Sprintf("(store %s %s %s)", old, i.S, f))
				return
			}
			vc.unsupportedf("modifies index: %v", err)
		}
	case *ESel:
		// p.f: only field f of object p changes
		if t := vc.staticTypeOf(m.X, spec, fr, cc); t != nil {
			if pt, ok := t.Underlying().(*types.Pointer); ok {
				if stt, ok := pt.Elem().Underlying().(*types.Struct); ok {
					for i := 0; i < stt.NumFields(); i++ {
						if stt.Field(i).Name() == m.Name {
							p := env[m.X.(*EIdent).Name]
							lv := &LVal{Comp: vc.memComp(pt.Elem()), Ref: p.S, Path: []pathElem{{field: i, structT: pt.Elem()}}, T: stt.Field(i).Type()}
							f := vc.freshVal("hv", stt.Field(i).Type(), fr.curReach)
							vc.storeL(lv, f.S, st)
							return
						}
					}
				}
			}
		}
	}
	for _, c := range vc.modComp(m, spec, fr, cc) {
		vc.havoc(st, c)
	}
}

// atCallAsserts checks `at call X#k: assert e` clauses of the function under verification.
func (fr *Frame) atCallAsserts(key string, cc *ssa.CallCommon, st *State, pos token.Pos) {
	if fr.spec == nil || !fr.isTop {
		return
	}
	vc := fr.vc
	for _, at := range fr.spec.Ats {
		if at.Clause == nil && at.Ghost == nil {
			continue
		}
		if !calleeMatches(at.Callee, key, cc) {
			continue
		}
		if at.Ord >= 0 && at.Ord != fr.siteOrdinal(at.Callee, cc) {
			continue
		}
		vc.atMatched[at] = true
		ctx := fr.specCtx(st, fr.entry, fr.curBlock, fr.curIdx)
		for i, a := range cc.Args {
			t := fr.argTerm(a)
			t.T = a.Type()
			ctx.env[fmt.Sprintf("$arg%d", i)] = t
		}
		if at.Ghost != nil {
			fr.applyGhosts([]*GhostAssign{at.Ghost}, ctx, st)
			continue
		}
		g, err := ctx.evalBool(at.Clause.E)
		if err != nil {
			vc.unsupportedf("at call %s: %v", at.Callee, err)
			continue
		}
		if at.Assume {
			vc.assumeIf(fr.curReach, g)
			vc.note("assumed at the call of %s in %s: %s", at.Callee, vc.name, at.Clause.Text)
			continue
		}
		vc.oblige("assert", fr.tagsFor(at.Clause.Tags), fr.curReach, g, fmt.Sprintf("at call %s: %s", at.Callee, at.Clause.Text), pos, at.Clause)
	}
}

func calleeMatches(pat, key string, cc *ssa.CallCommon) bool {
	if key == pat || strings.HasSuffix(key, "."+pat) || strings.HasSuffix(key, "/"+pat) {
		return true
	}
	// "recv.method" on a statically dispatched method: h.handleSetCommon, h.rw.Write ($arg0 is the receiver)
	if f, ok := cc.Value.(*ssa.Function); ok && !cc.IsInvoke() && f.Signature.Recv() != nil {
		if i := strings.LastIndex(pat, "."); i >= 0 && pat[i+1:] == f.Name() && !strings.Contains(pat[:i], "/") {
			return true
		}
	}
	// "local.Method" on an interface-typed local: lock.Lock
	if cc.IsInvoke() && strings.Count(pat, ".") == 1 {
		if i := strings.Index(pat, "."); pat[i+1:] == cc.Method.Name() {
			if u, ok := cc.Value.(*ssa.UnOp); ok {
				if _, isField := u.X.(*ssa.FieldAddr); isField {
					return false
				}
			}
			return true
		}
	}
	// "recv.Method" form: l.wrapped.Set -> matches invoke of method Set on a value loaded from field wrapped
	if cc.IsInvoke() {
		if i := strings.LastIndex(pat, "."); i >= 0 {
			if pat[i+1:] == cc.Method.Name() {
				fld := pat[:i]
				if j := strings.LastIndex(fld, "."); j >= 0 {
					fld = fld[j+1:]
				}
				if u, ok := cc.Value.(*ssa.UnOp); ok {
					if fa, ok := u.X.(*ssa.FieldAddr); ok {
						if fieldName(fa.X.Type().Underlying().(*types.Pointer).Elem(), fa.Field) == fld {
							return true
						}
					}
				}
			}
		}
	}
	return false
}

// ---- panics, defers, closures ----

func (fr *Frame) panicComp() string {
	fr.vc.comp("$panic", "Int")
	return "$panic"
}

// panicExit: control leaves the current point by panic with value pv.
func (fr *Frame) panicExit(st *State, reach, pv string, pos token.Pos, explicit bool) {
	vc := fr.vc
	if reach == "false" {
		return
	}
	if explicit && fr.isTop && (fr.spec == nil || !fr.spec.PanicsMay) && len(fr.defers) == 0 {
		vc.oblige("panic", fr.autoTags(), reach, "false", "explicit panic is unreachable", pos, nil)
		return
	}
	pc := fr.panicComp()
	st.m[pc] = pv
	saved := fr.curReach
	fr.curReach = reach
	fr.runDefers(st, true)
	after := vc.get(st, pc)
	r := fr.curReach
	fr.curReach = saved
	// still panicking
	stillP := and(r, fmt.Sprintf("(not (= %s 0))", after))
	if after != "0" {
		fr.exits = append(fr.exits, &Exit{reach: stillP, st: st.clone(), kind: "panic", pos: pos})
	}
	// recovered: function returns via the Recover block (named results) or with zero values
	rec := and(r, fmt.Sprintf("(= %s 0)", after))
	if after == pv {
		return // nothing could have recovered
	}
	rst := st.clone()
	rst.m[pc] = "0"
	if fr.fn.Recover != nil {
		saved := fr.curReach
		sb := fr.curBlock
		fr.curReach = rec
		fr.curBlock = fr.fn.Recover
		fr.execBlock(fr.fn.Recover, rst)
		fr.curReach = saved
		fr.curBlock = sb
	} else {
		var res []Term
		rs := fr.fn.Signature.Results()
		for i := 0; i < rs.Len(); i++ {
			res = append(res, vc.zero(rs.At(i).Type()))
		}
		fr.exits = append(fr.exits, &Exit{reach: rec, st: rst, results: res, kind: "return", pos: pos})
	}
}

// runDefers executes the deferred calls registered so far, LIFO.
func (fr *Frame) runDefers(st *State, panicking bool) {
	vc := fr.vc
	pc := fr.panicComp()
	ds := fr.defers
	for i := len(ds) - 1; i >= 0; i-- {
		d := ds[i]
		// the defer must dominate the current point to have been registered
		if fr.curBlock != nil && d.block != fr.curBlock && !d.block.Dominates(fr.curBlock) && fr.curBlock != fr.fn.Recover {
			if !blockReaches(d.block, fr.curBlock) {
				continue // this defer statement is not on any path to the current point
			}
			vc.unsupportedf("conditionally registered defer")
		}
		cc := d.instr.Common()
		if b, ok := cc.Value.(*ssa.Builtin); ok {
			if b.Name() == "close" && len(cc.Args) == 1 {
				fr.closeChan(cc.Args[0], st, d.instr.Pos())
				continue
			}
			vc.unsupportedf("deferred builtin %s", b.Name())
			continue
		}
		// a deferred call that panics replaces the current panic
		savedDefers := fr.defers
		fr.defers = nil // nested panics inside deferred calls do not re-run our defers here
		before := vc.get(st, pc)
		_ = before
		exitsBefore := len(fr.exits)
		fr.inDefer++
		fr.doCall(d.instr, cc, st, d.instr.Pos())
		fr.inDefer--
		fr.defers = savedDefers
		// exits appended by a panicking deferred call (panic edges) are folded back: treat as "still panicking"
		if len(fr.exits) > exitsBefore {
			extra := fr.exits[exitsBefore:]
			fr.exits = fr.exits[:exitsBefore]
			fr.foldDeferPanics(extra, st, i)
		}
	}
}

// foldDeferPanics: a deferred call panicked. The remaining defers (0..i-1) still run; we model this by
// merging the panic state back into st with $panic set.
func (fr *Frame) foldDeferPanics(extra []*Exit, st *State, i int) {
	vc := fr.vc
	pc := fr.panicComp()
	// merge: st := ite(extra.reach, extra.st, st) for all components
	for _, ex := range extra {
		if ex.kind != "panic" {
			continue
		}
		keys := map[string]bool{}
		for k := range ex.st.m {
			keys[k] = true
		}
		for k := range st.m {
			keys[k] = true
		}
		var ks []string
		for k := range keys {
			ks = append(ks, k)
		}
		sort.Strings(ks)
		for _, k := range ks {
			a, b := vc.get(ex.st, k), vc.get(st, k)
			if a == b {
				continue
			}
			n := vc.fresh("dm")
			vc.define(n, vc.comps[k], fmt.Sprintf("(ite %s %s %s)", ex.reach, a, b))
			st.m[k] = n
		}
		// reach: both continue
		nr := vc.fresh(fr.id + "_r")
		vc.define(nr, "Bool", or(fr.curReach, ex.reach))
		fr.curReach = nr
	}
	_ = pc
}

// inlineClosure executes an anonymous function body in place.
func (fr *Frame) inlineClosure(mc *ssa.MakeClosure, args []ssa.Value, st *State, pos token.Pos) []Term {
	vc := fr.vc
	fn := mc.Fn.(*ssa.Function)
	if vc.frames > 40 {
		vc.unsupportedf("closure inlining too deep")
		return nil
	}
	sub := vc.newFrame(fn, fr)
	for i, fv := range fn.FreeVars {
		b := mc.Bindings[i]
		if lv, ok := fr.lvals[b]; ok {
			sub.freeL[fv] = lv
			if t, ok := fr.vals[b]; ok {
				sub.freeV[fv] = t
			}
		} else if fv2, ok := b.(*ssa.FreeVar); ok && fr.freeL[fv2] != nil {
			sub.freeL[fv] = fr.freeL[fv2]
		} else {
			sub.freeV[fv] = fr.val(b)
		}
	}
	for i, p := range fn.Params {
		if i < len(args) {
			sub.vals[p] = fr.val(args[i])
		}
	}
	sub.inDefer = fr.inDefer
	sub.curReach = fr.curReach
	sub.run(st, fr.curReach)
	// merge exits back into st
	var rets []*Exit
	for _, ex := range sub.exits {
		if ex.kind == "panic" {
			fr.exits = append(fr.exits, ex) // caller (runDefers or panic propagation) folds these
			continue
		}
		rets = append(rets, ex)
	}
	if len(rets) == 0 {
		fr.curReach = "false"
		return nil
	}
	reach, merged, results := fr.mergeExits(rets, fn.Signature.Results())
	for k := range st.m {
		delete(st.m, k)
	}
	for k, v := range merged.m {
		st.m[k] = v
	}
	fr.curReach = reach
	return results
}

func (fr *Frame) mergeExits(rets []*Exit, results *types.Tuple) (string, *State, []Term) {
	vc := fr.vc
	if len(rets) == 1 {
		return rets[0].reach, rets[0].st.clone(), rets[0].results
	}
	var conds []string
	for _, ex := range rets {
		conds = append(conds, ex.reach)
	}
	rn := vc.fresh(fr.id + "_rj")
	vc.define(rn, "Bool", or(conds...))
	keys := map[string]bool{}
	for _, ex := range rets {
		for k := range ex.st.m {
			keys[k] = true
		}
	}
	var ks []string
	for k := range keys {
		ks = append(ks, k)
	}
	sort.Strings(ks)
	merged := newState()
	for _, k := range ks {
		first := vc.get(rets[0].st, k)
		same := true
		for _, ex := range rets[1:] {
			if vc.get(ex.st, k) != first {
				same = false
			}
		}
		if same {
			merged.m[k] = first
			continue
		}
		n := vc.fresh("jm")
		vc.declare(n, vc.comps[k])
		for _, ex := range rets {
			vc.assume(fmt.Sprintf("(=> %s (= %s %s))", ex.reach, n, vc.get(ex.st, k)))
		}
		merged.m[k] = n
	}
	var res []Term
	for i := 0; i < results.Len(); i++ {
		t := results.At(i).Type()
		n := vc.fresh("jr")
		vc.declare(n, vc.sortOf(t))
		for _, ex := range rets {
			if i < len(ex.results) {
				vc.assume(fmt.Sprintf("(=> %s (= %s %s))", ex.reach, n, ex.results[i].S))
			}
		}
		res = append(res, Term{n, vc.sortOf(t), t})
	}
	return rn, merged, res
}

func (fr *Frame) execGo(ins *ssa.Go, st *State) {
	vc := fr.vc
	cc := ins.Common()
	key, _ := fr.calleeKey(cc)
	vc.note("go statement at %s: spawned function %s is verified separately; no interleaving is explored", vc.posOf(ins.Pos()), key)
	// `at call F: assert e` clauses also apply where F is spawned
	if key != "" {
		fr.atCallAsserts(key, cc, st, ins.Pos())
	}
	if spec := vc.lookupSpec(key); spec != nil {
		// check the precondition of the spawned function
		names, typs := vc.formals(spec, cc)
		args := fr.argTerms(cc)
		env := map[string]Term{}
		for i, n := range names {
			if i < len(args) {
				a := args[i]
				a.T = typs[i]
				env[n] = a
			}
		}
		for _, rq := range spec.Requires {
			ctx := &SpecCtx{vc: vc, env: env, st: st, old: st, pkg: spec.Pkg}
			g, err := ctx.evalBool(rq.E)
			if err != nil {
				vc.unsupportedf("requires of %s: %v", spec.Key, err)
				continue
			}
			vc.oblige("precondition", fr.autoTags(), fr.curReach, g, fmt.Sprintf("precondition of spawned %s: %s", spec.Key, rq.Text), ins.Pos(), rq)
		}
	}
}

// ---- builtins ----

func (fr *Frame) execBuiltin(ins *ssa.Call, b *ssa.Builtin, st *State) {
	vc := fr.vc
	args := ins.Call.Args
	switch b.Name() {
	case "len", "cap":
		x := fr.val(args[0])
		switch args[0].Type().Underlying().(type) {
		case *types.Slice:
			fr.bind(ins, fmt.Sprintf("(sl_%s %s)", b.Name(), x.S))
		case *types.Basic:
			fr.bind(ins, vc.fromInt(fmt.Sprintf("(str_len %s)", x.S)))
		case *types.Map:
			mt := args[0].Type().Underlying().(*types.Map)
			fr.bind(ins, vc.fromInt(fmt.Sprintf("(select %s %s)", vc.get(st, vc.mapLenComp()), x.S)))
			vc.assumeIf(fr.curReach, vc.ile(vc.ilit(0), fr.vals[ins].S))
			// a map is empty iff its cardinality is 0
			vc.assumeIf(fr.curReach, fmt.Sprintf("(= (= (select %s %s) 0) (= (select %s %s) %s))", vc.get(st, vc.mapLenComp()), x.S, vc.get(st, vc.mapComp(mt)), x.S, vc.emptyMap(mt)))
		case *types.Chan:
			fr.bindFresh(ins)
			vc.assumeIf(fr.curReach, vc.ile(vc.ilit(0), fr.vals[ins].S))
		default:
			vc.unsupportedf("%s of %s", b.Name(), args[0].Type())
			fr.bindFresh(ins)
		}
	case "append":
		fr.execAppend(ins, st)
	case "copy":
		fr.execCopy(ins, st)
	case "recover":
		pc := fr.panicComp()
		cur := vc.get(st, pc)
		if fr.inDefer == 0 {
			fr.bind(ins, "0")
			return
		}
		fr.bind(ins, cur)
		st.m[pc] = "0"
		// ghost: count the panics swallowed by recover()
		vc.comp("$recovered", "Int")
		vc.set(st, "$recovered", fmt.Sprintf("(+ %s (ite (= %s 0) 0 1))", vc.get(st, "$recovered"), cur))
	case "delete":
		fr.execMapDelete(ins, st)
	case "close":
		fr.execClose(ins, st)
	case "print", "println":
		fr.vals[ins] = Term{"unit", "Unit", ins.Type()}
	case "min", "max":
		x, y := fr.val(args[0]), fr.val(args[1])
		lt := vc.ilt(x.S, y.S)
		if b.Name() == "max" {
			lt = vc.ilt(y.S, x.S)
		}
		fr.bind(ins, fmt.Sprintf("(ite %s %s %s)", lt, x.S, y.S))
	default:
		vc.unsupportedf("builtin %s", b.Name())
		if ins.Type() != nil {
			fr.bindFresh(ins)
		}
	}
}

// execAppend models append(s, t...) heap-precisely: in place iff len+n <= cap.
func (fr *Frame) execAppend(ins *ssa.Call, st *State) {
	vc := fr.vc
	args := ins.Call.Args
	s := fr.val(args[0])
	et := args[0].Type().Underlying().(*types.Slice).Elem()
	comp := vc.arrComp(et)
	var tArr, tOff, n string
	if isString(args[1].Type()) {
		t := fr.val(args[1])
		n = vc.fromInt(fmt.Sprintf("(str_len %s)", t.S))
		tArr = fmt.Sprintf("(str_arr %s)", t.S)
		tOff = vc.ilit(0)
	} else {
		t := fr.val(args[1])
		n = fmt.Sprintf("(sl_len %s)", t.S)
		tArr = fmt.Sprintf("(select %s (sl_ref %s))", vc.get(st, comp), t.S)
		tOff = fmt.Sprintf("(sl_off %s)", t.S)
	}
	fr.bind(ins, fr.appendModel(s.S, et, tArr, tOff, n, st))
}

// appendModel appends n elements (tArr[tOff..tOff+n)) to slice s and returns the resulting slice term.
func (fr *Frame) appendModel(s string, et types.Type, tArr, tOff, n string, st *State) string {
	vc := fr.vc
	comp := vc.arrComp(et)
	is := vc.isort()
	es := vc.sortOf(et)
	sRef := fmt.Sprintf("(sl_ref %s)", s)
	sOff := fmt.Sprintf("(sl_off %s)", s)
	sLen := fmt.Sprintf("(sl_len %s)", s)
	sCap := fmt.Sprintf("(sl_cap %s)", s)
	newLen := vc.fresh("alen")
	vc.define(newLen, is, vc.iadd(sLen, n))
	inplace := vc.fresh("inplace")
	vc.define(inplace, "Bool", vc.ile(newLen, sCap))
	// fresh ref for the reallocation case
	r := vc.newRef(st, fr.curReach)
	oldArr := fmt.Sprintf("(select %s %s)", vc.get(st, comp), sRef)
	// in-place array: old with [off+len, off+len+n) overwritten
	a1 := vc.fresh("apA")
	vc.declare(a1, fmt.Sprintf("(Array %s %s)", is, es))
	base := vc.iadd(sOff, sLen)
	vc.assume(fmt.Sprintf("(forall ((j %s)) (! (= (select %s j) (ite %s (select %s %s) (select %s j))) :pattern ((select %s j))))",
		is, a1, and(vc.ile(base, "j"), vc.ilt("j", vc.iadd(base, n))), tArr, vc.iadd(tOff, vc.isub("j", base)), oldArr, a1))
	// reallocated array: [0,len) from s, [len, len+n) from t
	a2 := vc.fresh("apB")
	vc.declare(a2, fmt.Sprintf("(Array %s %s)", is, es))
	vc.assume(fmt.Sprintf("(forall ((j %s)) (! (=> %s (= (select %s j) (ite %s (select %s %s) (select %s %s)))) :pattern ((select %s j))))",
		is, and(vc.ile(vc.ilit(0), "j"), vc.ilt("j", newLen)), a2, vc.ilt("j", sLen), oldArr, vc.iadd(sOff, "j"), tArr, vc.iadd(tOff, vc.isub("j", sLen)), a2))
	ncap := vc.fresh("ncap")
	vc.declare(ncap, is)
	vc.assume(and(vc.ile(newLen, ncap), vc.ilt(ncap, vc.ilit(1<<46))))
	cur := vc.get(st, comp)
	vc.set(st, comp, fmt.Sprintf("(ite %s (store %s %s %s) (store %s %s %s))", inplace, cur, sRef, a1, cur, r, a2))
	return fmt.Sprintf("(ite %s %s %s)", inplace, vc.mkSlice(sRef, sOff, newLen, sCap), vc.mkSlice(r, vc.ilit(0), newLen, ncap))
}

func (fr *Frame) execCopy(ins *ssa.Call, st *State) {
	vc := fr.vc
	args := ins.Call.Args
	d := fr.val(args[0])
	et := args[0].Type().Underlying().(*types.Slice).Elem()
	comp := vc.arrComp(et)
	is := vc.isort()
	es := vc.sortOf(et)
	var sArr, sOff, sLen string
	if isString(args[1].Type()) {
		t := fr.val(args[1])
		sLen = vc.fromInt(fmt.Sprintf("(str_len %s)", t.S))
		sArr = fmt.Sprintf("(str_arr %s)", t.S)
		sOff = vc.ilit(0)
	} else {
		t := fr.val(args[1])
		sLen = fmt.Sprintf("(sl_len %s)", t.S)
		sArr = fmt.Sprintf("(select %s (sl_ref %s))", vc.get(st, comp), t.S)
		sOff = fmt.Sprintf("(sl_off %s)", t.S)
	}
	dLen := fmt.Sprintf("(sl_len %s)", d.S)
	n := vc.fresh("ncopy")
	vc.define(n, is, fmt.Sprintf("(ite %s %s %s)", vc.ilt(dLen, sLen), dLen, sLen))
	dOff := fmt.Sprintf("(sl_off %s)", d.S)
	dRef := fmt.Sprintf("(sl_ref %s)", d.S)
	oldArr := fmt.Sprintf("(select %s %s)", vc.get(st, comp), dRef)
	a := vc.fresh("cpA")
	vc.declare(a, fmt.Sprintf("(Array %s %s)", is, es))
	vc.assume(fmt.Sprintf("(forall ((j %s)) (! (= (select %s j) (ite %s (select %s %s) (select %s j))) :pattern ((select %s j))))",
		is, a, and(vc.ile(dOff, "j"), vc.ilt("j", vc.iadd(dOff, n))), sArr, vc.iadd(sOff, vc.isub("j", dOff)), oldArr, a))
	vc.set(st, comp, fmt.Sprintf("(store %s %s %s)", vc.get(st, comp), dRef, a))
	if lv, ok := fr.snaps()[args[0]]; ok {
		// destination is a slice of an embedded array: write the result back into the array
		vc.storeL(lv, a, st)
	}
	fr.bind(ins, n)
}

// allocBound: `allocbound e` — every make([]T, n) in the function must satisfy n <= e.
func (fr *Frame) allocBound(ins *ssa.MakeSlice, n string) {
	if fr.spec == nil || fr.spec.AllocBound == nil || !fr.isTop {
		return
	}
	vc := fr.vc
	ctx := fr.specCtx(fr.stNow, fr.entry, fr.curBlock, fr.curIdx)
	b, err := ctx.eval(fr.spec.AllocBound.E)
	if err != nil {
		vc.unsupportedf("allocbound: %v", err)
		return
	}
	b = ctx.coerceLit(b, vc.isort())
	vc.oblige("alloc", fr.tagsFor(fr.spec.AllocBound.Tags), fr.curReach, vc.ile(n, b.S), "allocation size bounded by "+fr.spec.AllocBound.Text, ins.Pos(), fr.spec.AllocBound)
}

func blockReaches(from, to *ssa.BasicBlock) bool {
	seen := map[*ssa.BasicBlock]bool{}
	var dfs func(b *ssa.BasicBlock) bool
	dfs = func(b *ssa.BasicBlock) bool {
		if b == to {
			return true
		}
		if seen[b] {
			return false
		}
		seen[b] = true
		for _, s := range b.Succs {
			if dfs(s) {
				return true
			}
		}
		return false
	}
	for _, s := range from.Succs {
		if dfs(s) {
			return true
		}
	}
	return false
}

func (fr *Frame) requireOwnedOrNil(p string, what string, pos token.Pos, st *State) {
	vc := fr.vc
	vc.oblige("ownership", fr.ownTags(), fr.curReach, fmt.Sprintf("(or (= %s 0) (select %s %s))", p, vc.get(st, vc.ownedComp()), p), "pooled object is owned (not used after Put): "+what, pos, nil)
}

// atSendAsserts checks `at send <chan>: assert e` clauses; $val is the value sent.
func (fr *Frame) atSendAsserts(ins *ssa.Send, v Term, st *State) {
	if fr.spec == nil || !fr.isTop {
		return
	}
	vc := fr.vc
	var ghosts []*GhostAssign
	var gctx *SpecCtx
	defer func() {
		if len(ghosts) > 0 {
			fr.applyGhosts(ghosts, gctx, st)
		}
	}()
	for _, at := range fr.spec.Ats {
		if at.Clause == nil && at.Ghost == nil {
			continue
		}
		if !strings.HasPrefix(at.Callee, "send:") {
			continue
		}
		name := strings.TrimPrefix(at.Callee, "send:")
		if !sendChanMatches(ins, name) {
			continue
		}
		if at.Ord >= 0 && at.Ord != fr.sendOrdinal(ins, name) {
			continue
		}
		vc.atMatched[at] = true
		ctx := fr.specCtx(st, fr.entry, fr.curBlock, fr.curIdx)
		v.T = ins.X.Type()
		ctx.env["$val"] = v
		if at.Ghost != nil {
			ghosts = append(ghosts, at.Ghost)
			gctx = ctx
			continue
		}
		g, err := ctx.evalBool(at.Clause.E)
		if err != nil {
			vc.unsupportedf("at send %s: %v", name, err)
			continue
		}
		vc.oblige("assert", fr.tagsFor(at.Clause.Tags), fr.curReach, g, fmt.Sprintf("at send %s: %s", name, at.Clause.Text), ins.Pos(), at.Clause)
	}
}

// siteOrdinal: the index of call site cc among the call sites of fr.fn matching the pattern, in source order.
func (fr *Frame) siteOrdinal(pat string, cc *ssa.CallCommon) int {
	type site struct {
		cc  *ssa.CallCommon
		pos token.Pos
		seq int
	}
	var sites []site
	seq := 0
	for _, b := range fr.fn.Blocks {
		for _, ins := range b.Instrs {
			ci, ok := ins.(ssa.CallInstruction)
			if !ok {
				continue
			}
			c := ci.Common()
			if _, isB := c.Value.(*ssa.Builtin); isB {
				continue
			}
			key, _ := fr.calleeKey(c)
			if calleeMatches(pat, key, c) {
				sites = append(sites, site{c, ins.Pos(), seq})
				seq++
			}
		}
	}
	sort.SliceStable(sites, func(i, j int) bool {
		if sites[i].pos != sites[j].pos {
			return sites[i].pos < sites[j].pos
		}
		return sites[i].seq < sites[j].seq
	})
	for i, s := range sites {
		if s.cc == cc {
			return i
		}
	}
	return -1
}

// sendChanMatches: the channel operand of a send is the parameter / register called name, or a field
// called name (x.name) of a struct value or object.
func sendChanMatches(ins *ssa.Send, name string) bool {
	if p, ok := ins.Chan.(*ssa.Parameter); ok && p.Name() == name {
		return true
	}
	if ins.Chan.Name() == name {
		return true
	}
	switch c := ins.Chan.(type) {
	case *ssa.Field:
		if st, ok := c.X.Type().Underlying().(*types.Struct); ok && st.Field(c.Field).Name() == name {
			return true
		}
	case *ssa.UnOp:
		if fa, ok := c.X.(*ssa.FieldAddr); ok {
			if pt, ok := fa.X.Type().Underlying().(*types.Pointer); ok && fieldName(pt.Elem(), fa.Field) == name {
				return true
			}
		}
		if g, ok := c.X.(*ssa.Global); ok && g.Name() == name {
			return true // a package-level channel variable
		}
	}
	return false
}

func (fr *Frame) sendOrdinal(ins *ssa.Send, name string) int {
	var sends []*ssa.Send
	for _, b := range fr.fn.Blocks {
		for _, i := range b.Instrs {
			if s, ok := i.(*ssa.Send); ok && sendChanMatches(s, name) {
				sends = append(sends, s)
			}
		}
	}
	sort.SliceStable(sends, func(i, j int) bool { return sends[i].Pos() < sends[j].Pos() })
	for i, s := range sends {
		if s == ins {
			return i
		}
	}
	return -1
}
