package main

import (
	"fmt"
	"os"
)

// tryReplay attempts to execute the solver's counterexample against the real code.
// Returns true iff the violation reproduced on the real code.
func tryReplay(vc *VC, ob *Oblig, payload map[string]interface{}) bool {
	payload["replay"] = "no automatic replay harness for this function; the failed obligation and the solver output are recorded"
	return false
}

func cmdReplay(args []string) int {
	if len(args) < 1 {
		usage()
	}
	b, err := os.ReadFile(args[0])
	if err != nil {
		fmt.Fprintln(os.Stderr, err)
		return 2
	}
	os.Stdout.Write(b)
	fmt.Println()
	return 0
}
