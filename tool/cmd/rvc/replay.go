package main

// Replay of counterexamples against the real code.
//
// For a refuted obligation the solver's model is turned into concrete inputs for the real function
// (integers, booleans, byte slices with the model's length / capacity / aliasing, strings, structs of
// those, readers delivering the model's input stream), the function is executed through an in-package
// test that exists only in a `go test -overlay` (so /repo is not written and unexported functions are
// reachable), and the failed clause — compiled to Go — is evaluated on the real results. Automatic
// obligations (nil, bounds, division, type assertion, make, explicit panic) reproduce iff the real call
// panics; allocation bounds by the process running out of its address-space limit; variants by the
// test timing out. Whatever is outside this class (ghost state, handlers behind interfaces, channels,
// maps) is not replayed: the violation is then reported with `no-failing-input-found`.

import (
	"context"
	"encoding/json"
	"fmt"
	"go/types"
	"math/big"
	"os"
	"os/exec"
	"path/filepath"
	"regexp"
	"sort"
	"strings"
	"time"

	"golang.org/x/tools/go/ssa"
)

const replayMaxBytes = 4096

type rpInput struct {
	decl   []string // Go statements constructing the inputs
	args   []string // argument expressions (receiver first for methods)
	vars   map[string]rpVar
	reader string // Go variable of the input-stream bookkeeping (rvData / rvPos0 / rvRd), if any
	imports map[string]bool
}

type rpVar struct {
	code string
	t    types.Type
}

type modelQuery struct {
	vc     *VC
	ob     *Oblig
	solver string
	pins   []string
	prefs  []string // soft preferences steering the model towards replayable values; dropped if unsatisfiable
	cache  map[string]string
}

func (mq *modelQuery) prefer(a string) { mq.prefs = append(mq.prefs, "(assert "+a+")") }

// values evaluates SMT terms in a model of the refuted obligation (re-solving with the values obtained
// so far pinned, so that successive queries talk about one model).
func (mq *modelQuery) values(terms []string) ([]string, error) {
	var need []string
	for _, t := range terms {
		if _, ok := mq.cache[t]; !ok {
			need = append(need, t)
		}
	}
	if len(need) > 0 {
		body := mq.vc.standaloneBody(mq.ob, false)
		body = strings.TrimSuffix(strings.TrimSpace(body), "(check-sat)")
		solver := mq.solver
		var base string
		if strings.HasPrefix(solver, "z3-new (candidate") {
			// the candidate model was found without the quantified background axioms
			base = "(set-option :produce-models true)\n" + mq.vc.header() + body
			solver = "z3-new"
		} else {
			base = mq.vc.withAxioms("(set-option :produce-models true)\n"+mq.vc.header(), body)
		}
		order := []string{solver}
		for _, s := range solvers {
			if s.name != solver {
				order = append(order, s.name)
			}
		}
		var out string
		ok := false
		for _, withPrefs := range []bool{true, false} {
			if withPrefs && len(mq.prefs) == 0 {
				continue
			}
			for _, sv := range order {
				var sb2 strings.Builder
				sb2.WriteString(base)
				for _, p := range mq.pins {
					sb2.WriteString(p + "\n")
				}
				if withPrefs {
					for _, p := range mq.prefs {
						sb2.WriteString(p + "\n")
					}
				}
				sb2.WriteString("(check-sat)\n")
				for i := 0; i < len(need); i += 200 {
					j := i + 200
					if j > len(need) {
						j = len(need)
					}
					sb2.WriteString("(get-value (" + strings.Join(need[i:j], " ") + "))\n")
				}
				f, err := os.CreateTemp("", "rvc-model-*.smt2")
				if err != nil {
					return nil, err
				}
				f.WriteString(forSolver(sv, sb2.String()))
				f.Close()
				var argv []string
				for _, s := range solvers {
					if s.name == sv {
						argv = s.args(f.Name(), 20)
					}
				}
				ctx, cancel := context.WithTimeout(context.Background(), 30*time.Second)
				out, _ = runCmd(ctx, argv)
				cancel()
				os.Remove(f.Name())
				if a := answers(out); len(a) > 0 && a[0] == "sat" {
					ok = true
					break
				}
				if a := answers(out); len(a) > 0 && a[0] == "unsat" {
					break // these constraints exclude every model: do not ask the other solvers
				}
			}
			if ok {
				if !withPrefs {
					mq.prefs = nil
				}
				break
			}
		}
		if !ok {
			return nil, fmt.Errorf("model query: no solver returned a model (%v)", answers(out))
		}
		vals := parseGetValues(out)
		if len(vals) < len(need) {
			return nil, fmt.Errorf("model query: %d of %d values returned", len(vals), len(need))
		}
		for i, t := range need {
			mq.cache[t] = vals[i]
			if isGroundValue(vals[i]) {
				mq.pins = append(mq.pins, fmt.Sprintf("(assert (= %s %s))", t, vals[i]))
			}
		}
	}
	out := make([]string, len(terms))
	for i, t := range terms {
		out[i] = mq.cache[t]
	}
	return out, nil
}

func isGroundValue(v string) bool {
	return v == "true" || v == "false" || strings.HasPrefix(v, "#") || regexp.MustCompile(`^\(?-? ?[0-9]+\)?$`).MatchString(v)
}

// parseGetValues extracts the values of ((term value) ...) answers, in order.
func parseGetValues(out string) []string {
	var vals []string
	i := strings.Index(out, "((")
	for i >= 0 && i < len(out) {
		n, rest := readSx(out[i:])
		if n == nil || n.list == nil {
			break
		}
		for _, pair := range n.list {
			if len(pair.list) == 2 {
				vals = append(vals, pair.list[1].String())
			}
		}
		j := strings.Index(rest, "((")
		if j < 0 {
			break
		}
		i = len(out) - len(rest) + j
	}
	return vals
}

// smtInt parses an SMT integer / bit-vector / bool value.
func smtInt(v string) (*big.Int, bool) {
	v = strings.TrimSpace(v)
	if strings.HasPrefix(v, "#x") {
		b, ok := new(big.Int).SetString(v[2:], 16)
		return b, ok
	}
	if strings.HasPrefix(v, "#b") {
		b, ok := new(big.Int).SetString(v[2:], 2)
		return b, ok
	}
	if strings.HasPrefix(v, "(-") {
		s := strings.TrimSpace(strings.TrimSuffix(strings.TrimPrefix(v, "(-"), ")"))
		b, ok := new(big.Int).SetString(s, 10)
		if ok {
			b.Neg(b)
		}
		return b, ok
	}
	if strings.HasPrefix(v, "(_ bv") {
		f := strings.Fields(strings.Trim(v, "()"))
		if len(f) >= 2 {
			b, ok := new(big.Int).SetString(strings.TrimPrefix(f[1], "bv"), 10)
			return b, ok
		}
	}
	b, ok := new(big.Int).SetString(v, 10)
	return b, ok
}

type replayer struct {
	vc   *VC
	ob   *Oblig
	mq   *modelQuery
	in   *rpInput
	why  string
	nvar int
	backing map[string]string // slice ref value -> Go variable of the backing array
}

func (r *replayer) fail(format string, a ...interface{}) bool {
	if r.why == "" {
		r.why = fmt.Sprintf(format, a...)
	}
	return false
}

func (r *replayer) fresh(p string) string {
	r.nvar++
	return fmt.Sprintf("rv%s%d", p, r.nvar)
}

func (r *replayer) typeStr(t types.Type) string {
	pkg := r.vc.top.Pkg.Pkg
	return types.TypeString(t, func(p *types.Package) string {
		if p == pkg {
			return ""
		}
		r.in.imports[p.Path()] = true
		return p.Name()
	})
}

func (r *replayer) intVal(term string) (*big.Int, bool) {
	vs, err := r.mq.values([]string{term})
	if err != nil {
		r.fail("%v", err)
		return nil, false
	}
	b, ok := smtInt(vs[0])
	if !ok {
		r.fail("value of %s is not a number: %s", term, vs[0])
	}
	return b, ok
}

// build constructs a Go expression of type t whose value is that of SMT term `term` in the model
// (entry state).
func (r *replayer) build(term string, t types.Type, depth int) (string, bool) {
	vc := r.vc
	if depth > 6 {
		return "", r.fail("input too deeply nested")
	}
	switch u := t.Underlying().(type) {
	case *types.Basic:
		switch {
		case u.Info()&types.IsBoolean != 0:
			vs, err := r.mq.values([]string{term})
			if err != nil {
				return "", r.fail("%v", err)
			}
			return fmt.Sprintf("%s(%s)", r.typeStr(t), vs[0]), true
		case u.Info()&types.IsInteger != 0:
			b, ok := r.intVal(term)
			if !ok {
				return "", false
			}
			w, signed, _ := intInfo(t)
			if vc.bv && signed && b.Bit(w-1) == 1 {
				b = new(big.Int).Sub(b, new(big.Int).Lsh(big.NewInt(1), uint(w)))
			}
			return fmt.Sprintf("%s(%s)", r.typeStr(t), b.String()), true
		case u.Info()&types.IsString != 0:
			ln, ok := r.intVal(fmt.Sprintf("(str_len %s)", term))
			if !ok {
				return "", false
			}
			if ln.Sign() < 0 || ln.Cmp(big.NewInt(replayMaxBytes)) > 0 {
				return "", r.fail("string input of length %s", ln)
			}
			var terms []string
			for i := int64(0); i < ln.Int64(); i++ {
				terms = append(terms, fmt.Sprintf("(str_at %s %s)", term, vc.ilit(i)))
			}
			vs, err := r.mq.values(terms)
			if err != nil {
				return "", r.fail("%v", err)
			}
			var bs []string
			for _, v := range vs {
				b, _ := smtInt(v)
				if b == nil {
					b = big.NewInt(0)
				}
				bs = append(bs, fmt.Sprint(new(big.Int).And(b, big.NewInt(255))))
			}
			return fmt.Sprintf("%s([]byte{%s})", r.typeStr(t), strings.Join(bs, ",")), true
		}
	case *types.Slice:
		if !isByteSlice(t) {
			return "", r.fail("slice input of element type %s", u.Elem())
		}
		return r.buildBytes(term, t)
	case *types.Struct:
		s := vc.sortOf(t)
		var parts []string
		for i := 0; i < u.NumFields(); i++ {
			f := u.Field(i)
			e, ok := r.build(fmt.Sprintf("(%s_%s %s)", s, f.Name(), term), f.Type(), depth+1)
			if !ok {
				return "", false
			}
			parts = append(parts, fmt.Sprintf("%s: %s", f.Name(), e))
		}
		return fmt.Sprintf("%s{%s}", r.typeStr(t), strings.Join(parts, ", ")), true
	case *types.Array:
		if u.Len() > 64 {
			return "", r.fail("array input of %d elements", u.Len())
		}
		var parts []string
		for i := int64(0); i < u.Len(); i++ {
			e, ok := r.build(fmt.Sprintf("(select %s %s)", term, vc.ilit(i)), u.Elem(), depth+1)
			if !ok {
				return "", false
			}
			parts = append(parts, e)
		}
		return fmt.Sprintf("%s{%s}", r.typeStr(t), strings.Join(parts, ", ")), true
	case *types.Pointer:
		p, ok := r.intVal(term)
		if !ok {
			return "", false
		}
		if p.Sign() == 0 {
			return fmt.Sprintf("(%s)(nil)", r.typeStr(t)), true
		}
		switch typeKey(t) {
		case "Pbufio_Reader":
			return r.buildReader(fmt.Sprintf("(box_Pbufio_Reader %s)", term), true)
		}
		if _, isStruct := u.Elem().Underlying().(*types.Struct); isStruct {
			comp := vc.memComp(u.Elem())
			e, ok := r.build(fmt.Sprintf("(select %s %s)", compInit(comp), term), u.Elem(), depth+1)
			if !ok {
				return "", false
			}
			return "&" + e, true
		}
		return "", r.fail("pointer input to %s", u.Elem())
	case *types.Interface:
		h, ok := r.intVal(term)
		if !ok {
			return "", false
		}
		if h.Sign() == 0 {
			return fmt.Sprintf("(%s)(nil)", r.typeStr(t)), true
		}
		if typeKey(t) == "io_Reader" {
			return r.buildReader(vc.canon("rd", term), false)
		}
		return "", r.fail("interface input of type %s", t)
	}
	return "", r.fail("input of type %s", t)
}

// buildBytes builds a []byte with the model's length, capacity and (shared) backing array.
func (r *replayer) buildBytes(term string, t types.Type) (string, bool) {
	vc := r.vc
	if !vc.bv {
		r.mq.prefer(fmt.Sprintf("(and (<= (sl_off %s) 64) (<= (sl_cap %s) 4096))", term, term))
	}
	vs, err := r.mq.values([]string{fmt.Sprintf("(sl_ref %s)", term), fmt.Sprintf("(sl_off %s)", term), fmt.Sprintf("(sl_len %s)", term), fmt.Sprintf("(sl_cap %s)", term)})
	if err != nil {
		return "", r.fail("%v", err)
	}
	ref, _ := smtInt(vs[0])
	off, _ := smtInt(vs[1])
	ln, _ := smtInt(vs[2])
	cp, _ := smtInt(vs[3])
	if ref == nil || off == nil || ln == nil || cp == nil {
		return "", r.fail("slice header of %s not numeric", term)
	}
	if ref.Sign() == 0 {
		return fmt.Sprintf("%s(nil)", r.typeStr(t)), true
	}
	end := new(big.Int).Add(off, cp)
	if end.Cmp(big.NewInt(1<<20)) > 0 || off.Sign() < 0 || ln.Sign() < 0 || cp.Cmp(ln) < 0 {
		return "", r.fail("byte-slice input with offset %s length %s capacity %s is outside the replay range", off, ln, cp)
	}
	key := ref.String()
	bk, ok := r.backing[key]
	if !ok {
		bk = r.fresh("back")
		r.backing[key] = bk
		r.in.decl = append(r.in.decl, fmt.Sprintf("%s := make([]byte, %d)", bk, 1<<20))
	}
	comp := vc.arrComp(types.Typ[types.Uint8])
	n := cp.Int64()
	if n > replayMaxBytes {
		n = replayMaxBytes
	}
	var terms []string
	for i := int64(0); i < n; i++ {
		terms = append(terms, fmt.Sprintf("(select (select %s %s) %s)", compInit(comp), ref.String(), vc.ilit(off.Int64()+i)))
	}
	vals, err := r.mq.values(terms)
	if err != nil {
		return "", r.fail("%v", err)
	}
	var bs []string
	for _, v := range vals {
		b, _ := smtInt(v)
		if b == nil {
			b = big.NewInt(0)
		}
		bs = append(bs, fmt.Sprint(new(big.Int).And(b, big.NewInt(255))))
	}
	if len(bs) > 0 {
		r.in.decl = append(r.in.decl, fmt.Sprintf("copy(%s[%d:], []byte{%s})", bk, off.Int64(), strings.Join(bs, ",")))
	}
	return fmt.Sprintf("%s[%d:%d:%d]", bk, off.Int64(), off.Int64()+ln.Int64(), off.Int64()+cp.Int64()), true
}

// buildReader builds the input stream identified by SMT term id.
func (r *replayer) buildReader(id string, bufio bool) (string, bool) {
	vc := r.vc
	vc.rdposComp()
	p0t := fmt.Sprintf("(select %s %s)", compInit("$rdpos"), id)
	r.mq.prefer(fmt.Sprintf("(and (<= 0 %s) (<= %s 64) (<= %s (rd_len %s)) (<= (rd_len %s) (+ %s 70000)))", p0t, p0t, p0t, id, id, p0t))
	vs, err := r.mq.values([]string{fmt.Sprintf("(rd_len %s)", id), fmt.Sprintf("(select %s %s)", compInit("$rdpos"), id)})
	if err != nil {
		return "", r.fail("%v", err)
	}
	ln, _ := smtInt(vs[0])
	p0, _ := smtInt(vs[1])
	if ln == nil || p0 == nil || p0.Sign() < 0 || ln.Cmp(p0) < 0 {
		return "", r.fail("reader model not usable (rd_len %s, position %s)", vs[0], vs[1])
	}
	n := new(big.Int).Sub(ln, p0)
	if n.Cmp(big.NewInt(1<<17)) > 0 {
		return "", r.fail("reader model with %s remaining bytes is outside the replay range", n)
	}
	if p0.Cmp(big.NewInt(1<<16)) > 0 {
		return "", r.fail("reader model positioned at %s is outside the replay range", p0)
	}
	if r.in.reader != "" {
		return "", r.fail("more than one input stream")
	}
	var terms []string
	for i := int64(0); i < ln.Int64(); i++ {
		terms = append(terms, fmt.Sprintf("(select (rd_data %s) %d)", id, i))
	}
	vals, err := r.mq.values(terms)
	if err != nil {
		return "", r.fail("%v", err)
	}
	var bs []string
	for _, v := range vals {
		b, _ := smtInt(v)
		if b == nil {
			b = big.NewInt(0)
		}
		bs = append(bs, fmt.Sprint(new(big.Int).And(b, big.NewInt(255))))
	}
	r.in.imports["bytes"] = true
	r.in.decl = append(r.in.decl, fmt.Sprintf("rvData := []byte{%s}", strings.Join(bs, ",")), fmt.Sprintf("rvPos0 := %d", p0.Int64()), "rvRd := bytes.NewReader(rvData[rvPos0:])", "_ = rvRd")
	r.in.reader = "rvRd"
	if bufio {
		r.in.imports["bufio"] = true
		r.in.decl = append(r.in.decl, "rvBuf := bufio.NewReader(rvRd)")
		r.in.reader = "rvBuf"
		return "rvBuf", true
	}
	return "rvRd", true
}

// ---- clause compiler ----

type goExpr struct {
	code string
	kind string // int bool bytes str other
	t    types.Type
}

type clauseCompiler struct {
	r       *replayer
	env     map[string]goExpr // current values
	oldEnv  map[string]goExpr // entry values
	inOld   bool
	bv      bool
}

func (cc *clauseCompiler) errf(format string, a ...interface{}) (goExpr, error) {
	return goExpr{}, fmt.Errorf(format, a...)
}

func kindOf(t types.Type) string {
	if t == nil {
		return "other"
	}
	switch u := t.Underlying().(type) {
	case *types.Basic:
		switch {
		case u.Info()&types.IsBoolean != 0:
			return "bool"
		case u.Info()&types.IsInteger != 0:
			return "int"
		case u.Info()&types.IsString != 0:
			return "str"
		}
	case *types.Slice:
		if isByteSlice(t) {
			return "bytes"
		}
	}
	return "other"
}

// asInt renders an integer-kinded Go expression in the arithmetic domain of the clause: int64 with
// overflow checks (mathematical integers) in int mode, the Go type itself in bv mode.
func (cc *clauseCompiler) asInt(e goExpr) string {
	if cc.bv {
		return e.code
	}
	if e.t != nil {
		if w, signed, ok := intInfo(e.t); ok && w == 64 && !signed {
			return fmt.Sprintf("rvU(%s)", e.code)
		}
		return fmt.Sprintf("int64(%s)", e.code)
	}
	return e.code
}

func (cc *clauseCompiler) compile(e Expr) (goExpr, error) {
	switch e := e.(type) {
	case *ENum:
		v, ok := new(big.Int).SetString(e.Val, 0)
		if !ok {
			return cc.errf("bad number %s", e.Val)
		}
		if cc.bv {
			return goExpr{v.String(), "int", nil}, nil
		}
		return goExpr{fmt.Sprintf("int64(%s)", v.String()), "int", nil}, nil
	case *EIdent:
		env := cc.env
		if cc.inOld {
			env = cc.oldEnv
		}
		if g, ok := env[e.Name]; ok {
			return g, nil
		}
		switch e.Name {
		case "true", "false":
			return goExpr{e.Name, "bool", types.Typ[types.Bool]}, nil
		case "nil":
			return goExpr{"nil", "nil", nil}, nil
		}
		// package-level object of the function's package
		if obj := cc.r.vc.top.Pkg.Pkg.Scope().Lookup(e.Name); obj != nil {
			switch obj.(type) {
			case *types.Const, *types.Var:
				return goExpr{e.Name, kindOf(obj.Type()), obj.Type()}, nil
			}
		}
		return cc.errf("identifier %s has no run-time counterpart", e.Name)
	case *EUn:
		x, err := cc.compile(e.X)
		if err != nil {
			return x, err
		}
		switch e.Op {
		case "!":
			return goExpr{"!(" + x.code + ")", "bool", x.t}, nil
		case "-":
			if cc.bv {
				return goExpr{"-(" + x.code + ")", "int", x.t}, nil
			}
			return goExpr{"rvSub(0, " + cc.asInt(x) + ")", "int", nil}, nil
		}
		return cc.errf("unary %s", e.Op)
	case *EBin:
		return cc.binary(e)
	case *EIte:
		c, err := cc.compile(e.C)
		if err != nil {
			return c, err
		}
		a, err := cc.compile(e.A)
		if err != nil {
			return a, err
		}
		b, err := cc.compile(e.B)
		if err != nil {
			return b, err
		}
		if a.kind == "int" && !cc.bv {
			return goExpr{fmt.Sprintf("rvIte(%s, %s, %s)", c.code, cc.asInt(a), cc.asInt(b)), "int", nil}, nil
		}
		return goExpr{fmt.Sprintf("func() %s { if %s { return %s }; return %s }()", cc.r.typeStr(a.t), c.code, a.code, b.code), a.kind, a.t}, nil
	case *ESel:
		// package-qualified object
		if id, ok := e.X.(*EIdent); ok {
			if _, bound := cc.env[id.Name]; !bound {
				for _, imp := range cc.r.vc.top.Pkg.Pkg.Imports() {
					if imp.Name() == id.Name {
						if obj := imp.Scope().Lookup(e.Name); obj != nil {
							cc.r.in.imports[imp.Path()] = true
							return goExpr{id.Name + "." + e.Name, kindOf(obj.Type()), obj.Type()}, nil
						}
					}
				}
			}
		}
		x, err := cc.compile(e.X)
		if err != nil {
			return x, err
		}
		if x.t == nil {
			return cc.errf("field %s of untyped expression", e.Name)
		}
		t := x.t
		if p, ok := t.Underlying().(*types.Pointer); ok {
			t = p.Elem()
		}
		st, ok := t.Underlying().(*types.Struct)
		if !ok {
			return cc.errf("field %s of %s", e.Name, x.t)
		}
		for i := 0; i < st.NumFields(); i++ {
			if st.Field(i).Name() == e.Name {
				ft := st.Field(i).Type()
				return goExpr{x.code + "." + e.Name, kindOf(ft), ft}, nil
			}
		}
		return cc.errf("no field %s", e.Name)
	case *EIndex:
		x, err := cc.compile(e.X)
		if err != nil {
			return x, err
		}
		i, err := cc.compile(e.I)
		if err != nil {
			return i, err
		}
		if x.kind == "rddata" {
			return goExpr{fmt.Sprintf("rvAt(rvData, %s)", cc.asInt(i)), "int", types.Typ[types.Uint8]}, nil
		}
		if x.t == nil {
			return cc.errf("index of untyped expression")
		}
		switch u := x.t.Underlying().(type) {
		case *types.Slice:
			return goExpr{fmt.Sprintf("%s[%s]", x.code, cc.asInt(i)), kindOf(u.Elem()), u.Elem()}, nil
		case *types.Array:
			return goExpr{fmt.Sprintf("%s[%s]", x.code, cc.asInt(i)), kindOf(u.Elem()), u.Elem()}, nil
		case *types.Basic:
			return goExpr{fmt.Sprintf("%s[%s]", x.code, cc.asInt(i)), "int", types.Typ[types.Uint8]}, nil
		}
		return cc.errf("index of %s", x.t)
	case *ESlice:
		x, err := cc.compile(e.X)
		if err != nil {
			return x, err
		}
		lo, hi := "", ""
		if e.Lo != nil {
			l, err := cc.compile(e.Lo)
			if err != nil {
				return l, err
			}
			lo = cc.asInt(l)
		}
		if e.Hi != nil {
			h, err := cc.compile(e.Hi)
			if err != nil {
				return h, err
			}
			hi = cc.asInt(h)
		}
		return goExpr{fmt.Sprintf("%s[%s:%s]", x.code, lo, hi), x.kind, x.t}, nil
	case *ECall:
		return cc.call(e)
	case *EQuant:
		return cc.quant(e)
	}
	return cc.errf("expression form %T", e)
}

func (cc *clauseCompiler) binary(e *EBin) (goExpr, error) {
	l, err := cc.compile(e.L)
	if err != nil {
		return l, err
	}
	switch e.Op {
	case "==>", "&&", "||":
		// the right operand is evaluated lazily (it may index out of range when the left one is false)
		r, err := cc.compile(e.R)
		if err != nil {
			return r, err
		}
		switch e.Op {
		case "==>":
			return goExpr{fmt.Sprintf("(!(%s) || (%s))", l.code, r.code), "bool", nil}, nil
		case "&&":
			return goExpr{fmt.Sprintf("((%s) && (%s))", l.code, r.code), "bool", nil}, nil
		}
		return goExpr{fmt.Sprintf("((%s) || (%s))", l.code, r.code), "bool", nil}, nil
	}
	r, err := cc.compile(e.R)
	if err != nil {
		return r, err
	}
	switch e.Op {
	case "==", "!=":
		var eq string
		switch {
		case l.kind == "nil" || r.kind == "nil":
			o, n := l, r
			if l.kind == "nil" {
				o, n = r, l
			}
			_ = n
			eq = fmt.Sprintf("rvIsNil(%s)", o.code)
		case l.kind == "int" && r.kind == "int":
			eq = fmt.Sprintf("(%s == %s)", cc.asInt(l), cc.asInt(r))
		case l.kind == "bytes" && r.kind == "bytes":
			eq = fmt.Sprintf("(string(%s) == string(%s))", l.code, r.code)
		case l.kind == "content" || r.kind == "content":
			eq = fmt.Sprintf("(%s == %s)", l.code, r.code)
		case l.kind == "bool" || l.kind == "str":
			eq = fmt.Sprintf("(%s == %s)", l.code, r.code)
		default:
			if l.t != nil && r.t != nil && types.Comparable(l.t) && types.Identical(l.t, r.t) {
				eq = fmt.Sprintf("(%s == %s)", l.code, r.code)
			} else {
				return cc.errf("equality between %s and %s", l.kind, r.kind)
			}
		}
		if e.Op == "!=" {
			eq = "!" + eq
		}
		return goExpr{eq, "bool", nil}, nil
	case "<", "<=", ">", ">=":
		if l.kind != "int" || r.kind != "int" {
			return cc.errf("comparison of %s and %s", l.kind, r.kind)
		}
		if cc.bv {
			lc, rc := cc.bvPair(l, r)
			return goExpr{fmt.Sprintf("(%s %s %s)", lc, e.Op, rc), "bool", nil}, nil
		}
		return goExpr{fmt.Sprintf("(%s %s %s)", cc.asInt(l), e.Op, cc.asInt(r)), "bool", nil}, nil
	case "+", "-", "*", "/", "%", "&", "|", "^", "<<", ">>":
		if l.kind != "int" || r.kind != "int" {
			return cc.errf("arithmetic on %s and %s", l.kind, r.kind)
		}
		if cc.bv {
			lc, rc := cc.bvPair(l, r)
			t := l.t
			if t == nil {
				t = r.t
			}
			return goExpr{fmt.Sprintf("(%s %s %s)", lc, e.Op, rc), "int", t}, nil
		}
		fn := map[string]string{"+": "rvAdd", "-": "rvSub", "*": "rvMul", "/": "rvDiv", "%": "rvMod", "&": "rvAnd", "|": "rvOr", "^": "rvXor", "<<": "rvShl", ">>": "rvShr"}[e.Op]
		return goExpr{fmt.Sprintf("%s(%s, %s)", fn, cc.asInt(l), cc.asInt(r)), "int", nil}, nil
	}
	return cc.errf("operator %s", e.Op)
}

// bvPair: in bv mode literals take the type of the other operand.
func (cc *clauseCompiler) bvPair(l, r goExpr) (string, string) {
	lc, rc := l.code, r.code
	if l.t == nil && r.t != nil {
		lc = fmt.Sprintf("%s(%s)", cc.r.typeStr(r.t), l.code)
	}
	if r.t == nil && l.t != nil {
		rc = fmt.Sprintf("%s(%s)", cc.r.typeStr(l.t), r.code)
	}
	return lc, rc
}

func (cc *clauseCompiler) call(e *ECall) (goExpr, error) {
	arg := func(i int) (goExpr, error) {
		if i >= len(e.Args) {
			return cc.errf("%s: missing argument", e.Fun)
		}
		return cc.compile(e.Args[i])
	}
	switch e.Fun {
	case "old":
		c2 := *cc
		c2.inOld = true
		return c2.compile(e.Args[0])
	case "len", "cap":
		x, err := arg(0)
		if err != nil {
			return x, err
		}
		if cc.bv {
			return goExpr{fmt.Sprintf("%s(%s)", e.Fun, x.code), "int", types.Typ[types.Int]}, nil
		}
		return goExpr{fmt.Sprintf("int64(%s(%s))", e.Fun, x.code), "int", nil}, nil
	case "ite":
		return cc.compile(&EIte{e.Args[0], e.Args[1], e.Args[2]})
	case "bytes":
		x, err := arg(0)
		if err != nil {
			return x, err
		}
		return goExpr{fmt.Sprintf("string(%s)", x.code), "content", nil}, nil
	case "bcat":
		a, err := arg(0)
		if err != nil {
			return a, err
		}
		b, err := arg(1)
		if err != nil {
			return b, err
		}
		return goExpr{fmt.Sprintf("(%s + %s)", a.code, b.code), "content", nil}, nil
	case "rd_data":
		if cc.r.in.reader == "" {
			return cc.errf("rd_data without an input stream")
		}
		return goExpr{"rvData", "rddata", nil}, nil
	case "rd_len":
		if cc.r.in.reader == "" {
			return cc.errf("rd_len without an input stream")
		}
		return goExpr{"int64(len(rvData))", "int", nil}, nil
	case "rdpos":
		if cc.r.in.reader == "" {
			return cc.errf("rdpos without an input stream")
		}
		if cc.inOld {
			return goExpr{"int64(rvPos0)", "int", nil}, nil
		}
		if cc.r.in.reader == "rvBuf" {
			return goExpr{"int64(len(rvData) - rvRd.Len() - rvBuf.Buffered())", "int", nil}, nil
		}
		return goExpr{"int64(len(rvData) - rvRd.Len())", "int", nil}, nil
	case "be16", "be32", "le32":
		a, err := arg(0)
		if err != nil {
			return a, err
		}
		o, err := arg(1)
		if err != nil {
			return o, err
		}
		if a.kind != "rddata" {
			return cc.errf("%s on something other than the input stream", e.Fun)
		}
		return goExpr{fmt.Sprintf("rv%s(rvData, %s)", strings.ToUpper(e.Fun[:1])+e.Fun[1:], cc.asInt(o)), "int", nil}, nil
	case "box":
		return arg(0)
	case "is_io_error":
		x, err := arg(0)
		if err != nil {
			return x, err
		}
		return goExpr{fmt.Sprintf("rvIsIOErr(%s)", x.code), "bool", nil}, nil
	case "dyntype":
		x, err := arg(0)
		if err != nil {
			return x, err
		}
		return goExpr{fmt.Sprintf("rvTypeName(%s)", x.code), "str", nil}, nil
	case "typeid", "typeidp":
		name := exprName(e.Args[0])
		t := cc.r.vc.lookupType(shortPkg(cc.r.vc.top.Pkg.Pkg.Path()), name)
		if t == nil {
			return cc.errf("typeid of unknown type %s", name)
		}
		if e.Fun == "typeidp" {
			t = types.NewPointer(t)
		}
		return goExpr{fmt.Sprintf("rvTypeName(*new(%s))", cc.r.typeStr(t)), "str", nil}, nil
	case "unbox", "unboxp":
		x, err := arg(0)
		if err != nil {
			return x, err
		}
		name := exprName(e.Args[1])
		t := cc.r.vc.lookupType(shortPkg(cc.r.vc.top.Pkg.Pkg.Path()), name)
		if t == nil {
			return cc.errf("unbox to unknown type %s", name)
		}
		if e.Fun == "unboxp" {
			t = types.NewPointer(t)
		}
		return goExpr{fmt.Sprintf("%s.(%s)", x.code, cc.r.typeStr(t)), kindOf(t), t}, nil
	case "clz64":
		x, err := arg(0)
		if err != nil {
			return x, err
		}
		cc.r.in.imports["math/bits"] = true
		return goExpr{fmt.Sprintf("uint64(bits.LeadingZeros64(uint64(%s)))", x.code), "int", types.Typ[types.Uint64]}, nil
	case "dec_len":
		x, err := arg(0)
		if err != nil {
			return x, err
		}
		cc.r.in.imports["strconv"] = true
		return goExpr{fmt.Sprintf("int64(len(strconv.FormatInt(%s, 10)))", cc.asInt(x)), "int", nil}, nil
	case "dec_arr":
		x, err := arg(0)
		if err != nil {
			return x, err
		}
		cc.r.in.imports["strconv"] = true
		return goExpr{fmt.Sprintf("[]byte(strconv.FormatInt(%s, 10))", cc.asInt(x)), "bytes", types.NewSlice(types.Typ[types.Uint8])}, nil
	case "deadline":
		a, err := arg(0)
		if err != nil {
			return a, err
		}
		b, err := arg(1)
		if err != nil {
			return b, err
		}
		return goExpr{fmt.Sprintf("rvDeadline(%s, %s)", cc.asInt(a), cc.asInt(b)), "int", nil}, nil
	case "pow2":
		x, err := arg(0)
		if err != nil {
			return x, err
		}
		return goExpr{fmt.Sprintf("rvShl(1, %s)", cc.asInt(x)), "int", nil}, nil
	}
	// Go integer conversions
	if obj := types.Universe.Lookup(e.Fun); obj != nil && len(e.Args) == 1 {
		if tn, ok := obj.(*types.TypeName); ok {
			if _, _, ok := intInfo(tn.Type()); ok {
				x, err := arg(0)
				if err != nil {
					return x, err
				}
				if cc.bv {
					return goExpr{fmt.Sprintf("%s(%s)", e.Fun, x.code), "int", tn.Type()}, nil
				}
				return goExpr{cc.asInt(x), "int", nil}, nil // value-preserving view
			}
		}
	}
	return cc.errf("specification function %s has no run-time counterpart", e.Fun)
}

// quant compiles `forall j int :: lo <= j && j < hi ==> body` into a loop.
func (cc *clauseCompiler) quant(e *EQuant) (goExpr, error) {
	if len(e.Vars) != 1 {
		return cc.errf("quantifier over several variables")
	}
	v := e.Vars[0][0]
	var guard, body Expr
	if b, ok := e.Body.(*EBin); ok && b.Op == "==>" && e.Forall {
		guard, body = b.L, b.R
	} else if !e.Forall {
		guard, body = e.Body, &EIdent{"true"}
	} else {
		return cc.errf("quantifier without a range")
	}
	var lo, hi Expr
	var rest []Expr
	var conj func(x Expr)
	conj = func(x Expr) {
		if b, ok := x.(*EBin); ok && b.Op == "&&" {
			conj(b.L)
			conj(b.R)
			return
		}
		if b, ok := x.(*EBin); ok {
			li, lok := b.L.(*EIdent)
			ri, rok := b.R.(*EIdent)
			switch {
			case b.Op == "<=" && rok && ri.Name == v && lo == nil:
				lo = b.L
				return
			case b.Op == "<" && lok && li.Name == v && hi == nil:
				hi = b.R
				return
			case b.Op == "<=" && lok && li.Name == v && hi == nil:
				hi = &EBin{"+", b.R, &ENum{"1"}}
				return
			}
		}
		rest = append(rest, x)
	}
	conj(guard)
	if lo == nil || hi == nil {
		return cc.errf("quantifier range not of the form lo <= %s && %s < hi", v, v)
	}
	l, err := cc.compile(lo)
	if err != nil {
		return l, err
	}
	h, err := cc.compile(hi)
	if err != nil {
		return h, err
	}
	c2 := *cc
	c2.env = map[string]goExpr{}
	c2.oldEnv = map[string]goExpr{}
	for k, x := range cc.env {
		c2.env[k] = x
	}
	for k, x := range cc.oldEnv {
		c2.oldEnv[k] = x
	}
	iv := cc.r.fresh("q")
	it := types.Type(types.Typ[types.Int64])
	if cc.bv {
		it = types.Typ[types.Int]
	}
	c2.env[v] = goExpr{iv, "int", it}
	c2.oldEnv[v] = goExpr{iv, "int", it}
	cond := "true"
	for _, x := range rest {
		g, err := c2.compile(x)
		if err != nil {
			return g, err
		}
		cond += " && " + g.code
	}
	b, err := c2.compile(body)
	if err != nil {
		return b, err
	}
	ity := "int64"
	if cc.bv {
		ity = "int"
	}
	if e.Forall {
		return goExpr{fmt.Sprintf("func() bool { for %s := %s(%s); %s < %s(%s); %s++ { if %s && !(%s) { return false } }; return true }()", iv, ity, cc.asInt(l), iv, ity, cc.asInt(h), iv, cond, b.code), "bool", nil}, nil
	}
	return goExpr{fmt.Sprintf("func() bool { for %s := %s(%s); %s < %s(%s); %s++ { if %s && (%s) { return true } }; return false }()", iv, ity, cc.asInt(l), iv, ity, cc.asInt(h), iv, cond, b.code), "bool", nil}, nil
}

const replayHelpers = `
func rvChk(x int64) int64 { if x > 1<<61 || x < -(1<<61) { panic("RVC-REPLAY-RANGE") }; return x }
func rvU(x uint64) int64 { if x > 1<<61 { panic("RVC-REPLAY-RANGE") }; return int64(x) }
func rvAdd(a, b int64) int64 { return rvChk(rvChk(a) + rvChk(b)) }
func rvSub(a, b int64) int64 { return rvChk(rvChk(a) - rvChk(b)) }
func rvMul(a, b int64) int64 { rvChk(a); rvChk(b); if a != 0 && b != 0 { p := a * b; if p/b != a { panic("RVC-REPLAY-RANGE") }; return rvChk(p) }; return 0 }
func rvDiv(a, b int64) int64 { if b <= 0 || a < 0 { panic("RVC-REPLAY-RANGE") }; return a / b }
func rvMod(a, b int64) int64 { if b <= 0 { panic("RVC-REPLAY-RANGE") }; m := a % b; if m < 0 { m += b }; return m }
func rvAnd(a, b int64) int64 { if a < 0 || b < 0 { panic("RVC-REPLAY-RANGE") }; return a & b }
func rvOr(a, b int64) int64 { if a < 0 || b < 0 { panic("RVC-REPLAY-RANGE") }; return a | b }
func rvXor(a, b int64) int64 { if a < 0 || b < 0 { panic("RVC-REPLAY-RANGE") }; return a ^ b }
func rvShl(a, b int64) int64 { if a < 0 || b < 0 || b > 60 { panic("RVC-REPLAY-RANGE") }; return rvMul(a, int64(1)<<uint(b)) }
func rvShr(a, b int64) int64 { if a < 0 || b < 0 { panic("RVC-REPLAY-RANGE") }; if b > 62 { return 0 }; return a >> uint(b) }
func rvIte(c bool, a, b int64) int64 { if c { return a }; return b }
func rvAt(d []byte, i int64) int64 { if i < 0 || i >= int64(len(d)) { panic("RVC-REPLAY-RANGE") }; return int64(d[i]) }
func rvBe16(d []byte, o int64) int64 { return rvAt(d, o)<<8 | rvAt(d, o+1) }
func rvBe32(d []byte, o int64) int64 { return rvAt(d, o)<<24 | rvAt(d, o+1)<<16 | rvAt(d, o+2)<<8 | rvAt(d, o+3) }
func rvLe32(d []byte, o int64) int64 { return rvAt(d, o) | rvAt(d, o+1)<<8 | rvAt(d, o+2)<<16 | rvAt(d, o+3)<<24 }
func rvDeadline(now, ttl int64) int64 { if ttl == 0 { return -1 }; if ttl > 2592000 { return ttl }; return now + ttl }
func rvIsNil(x interface{}) bool {
	if x == nil { return true }
	v := rvreflect.ValueOf(x)
	switch v.Kind() { case rvreflect.Ptr, rvreflect.Slice, rvreflect.Map, rvreflect.Chan, rvreflect.Func, rvreflect.Interface: return v.IsNil() }
	return false
}
func rvTypeName(x interface{}) string { if x == nil { return "<nil>" }; return rvreflect.TypeOf(x).String() }
func rvIsIOErr(e error) bool { return e != nil && (e == rvio.EOF || e == rvio.ErrUnexpectedEOF || e == rvio.ErrClosedPipe || e == rvio.ErrShortBuffer || e == rvio.ErrNoProgress) }
`

// tryReplay attempts to execute the solver's counterexample against the real code.
// Returns true iff the violation reproduced on the real code.
func tryReplay(vc *VC, ob *Oblig, payload map[string]interface{}) bool {
	r := &replayer{vc: vc, ob: ob, backing: map[string]string{}}
	r.in = &rpInput{vars: map[string]rpVar{}, imports: map[string]bool{}}
	r.mq = &modelQuery{vc: vc, ob: ob, solver: ob.Solver, cache: map[string]string{}}
	ok := func() (ok bool) {
		defer func() {
			if x := recover(); x != nil {
				r.fail("internal error while building the replay: %v", x)
				ok = false
			}
		}()
		return r.run(payload)
	}()
	if r.why != "" {
		payload["replay"] = "not replayed: " + r.why
	}
	return ok
}

func (r *replayer) run(payload map[string]interface{}) bool {
	vc, ob := r.vc, r.ob
	fn := vc.top
	if fn.Pkg == nil || fn.Parent() != nil || len(fn.FreeVars) > 0 {
		return r.fail("closures are not replayed")
	}
	if vc.spec != nil && len(vc.spec.Requires) > 0 {
		// inputs come from a model of requires ∧ path ∧ ¬goal, so the pre-condition holds for them
	}
	// inputs
	var argNames []string
	oldEnv := map[string]goExpr{}
	env := map[string]goExpr{}
	for i, p := range fn.Params {
		n := "p_" + smtIdent(p.Name())
		if p.Name() == "" || p.Name() == "_" {
			n = fmt.Sprintf("p_arg%d", i)
		}
		code, ok := r.build(n, p.Type(), 0)
		if !ok {
			return false
		}
		gv := fmt.Sprintf("in%d", i)
		r.in.decl = append(r.in.decl, fmt.Sprintf("%s := %s", gv, code), "_ = "+gv)
		argNames = append(argNames, gv)
		name := p.Name()
		if vc.spec != nil && i < len(vc.spec.Params) {
			name = vc.spec.Params[i]
		}
		env[name] = goExpr{gv, kindOf(p.Type()), p.Type()}
		// entry copies of byte slices for old()
		if kindOf(p.Type()) == "bytes" {
			ov := fmt.Sprintf("old%d", i)
			r.in.decl = append(r.in.decl, fmt.Sprintf("%s := append([]byte(nil), %s...)", ov, gv), "_ = "+ov)
			oldEnv[name] = goExpr{ov, "bytes", p.Type()}
		} else {
			oldEnv[name] = env[name]
		}
	}
	// call
	sig := fn.Signature
	var call string
	if sig.Recv() != nil {
		call = fmt.Sprintf("%s.%s(%s)", argNames[0], fn.Name(), strings.Join(argNames[1:], ", "))
	} else {
		call = fmt.Sprintf("%s(%s)", fn.Name(), strings.Join(argNames, ", "))
	}
	var resNames []string
	rn := resultNames(vc.spec, sig)
	for i := 0; i < sig.Results().Len(); i++ {
		gv := fmt.Sprintf("r%d", i)
		resNames = append(resNames, gv)
		t := sig.Results().At(i).Type()
		ge := goExpr{gv, kindOf(t), t}
		if i < len(rn) && rn[i] != "" && rn[i] != "_" {
			env[rn[i]] = ge
		}
		env[fmt.Sprintf("result%d", i)] = ge
		if i == 0 {
			env["result"] = ge
		}
	}
	// what decides reproduction
	mode := ""
	clauseCode := ""
	switch ob.Kind {
	case "nil", "bounds", "slice", "divzero", "typeassert", "makeslice", "panic", "chan", "discard":
		mode = "panic"
	case "alloc", "wrap", "convert", "overflow":
		mode = "alloc"
	case "variant":
		mode = "timeout"
	case "ensures", "implements":
		if ob.Clause == nil {
			return r.fail("obligation without a clause")
		}
		cc := &clauseCompiler{r: r, env: env, oldEnv: oldEnv, bv: vc.bv}
		for _, l := range vc.spec.Lets {
			c0 := *cc
			c0.inOld = true
			g, err := c0.compile(l.E)
			if err != nil {
				return r.fail("let %s: %v", l.Name, err)
			}
			lv := "let" + l.Name
			r.in.decl = append(r.in.decl, fmt.Sprintf("%s := %s", lv, g.code), "_ = "+lv)
			env[l.Name] = goExpr{lv, g.kind, g.t}
			oldEnv[l.Name] = env[l.Name]
		}
		g, err := cc.compile(ob.Clause.E)
		if err != nil {
			return r.fail("the clause cannot be evaluated at run time: %v", err)
		}
		if g.kind != "bool" {
			return r.fail("clause is not boolean")
		}
		mode = "clause"
		clauseCode = g.code
	default:
		return r.fail("obligations of kind %q are not replayed (the failing point is inside the function)", ob.Kind)
	}
	// test source
	var sb strings.Builder
	fmt.Fprintf(&sb, "package %s\n\nimport (\n\t\"fmt\"\n\t\"testing\"\n\trvreflect \"reflect\"\n\trvio \"io\"\n\trvruntime \"runtime\"\n", fn.Pkg.Pkg.Name())
	var imps []string
	for p := range r.in.imports {
		imps = append(imps, p)
	}
	sort.Strings(imps)
	for _, p := range imps {
		fmt.Fprintf(&sb, "\t%q\n", p)
	}
	sb.WriteString(")\n\nvar _ = rvreflect.TypeOf\nvar _ = rvio.EOF\n")
	sb.WriteString(replayHelpers)
	sb.WriteString("\nfunc TestRvcReplay(t *testing.T) {\n")
	for _, d := range r.in.decl {
		sb.WriteString("\t" + d + "\n")
	}
	sb.WriteString("\tvar rvM0, rvM1 rvruntime.MemStats\n\trvruntime.ReadMemStats(&rvM0)\n")
	sb.WriteString("\tcalled := false\n\tdefer func() {\n\t\tif x := recover(); x != nil {\n\t\t\tif s, ok := x.(string); ok && s == \"RVC-REPLAY-RANGE\" { fmt.Println(\"RVC-REPLAY: RANGE\"); return }\n\t\t\tif called { fmt.Println(\"RVC-REPLAY: CLAUSE-PANIC\", x); return }\n\t\t\tfmt.Println(\"RVC-REPLAY: PANIC\", x)\n\t\t}\n\t}()\n")
	if len(resNames) > 0 {
		fmt.Fprintf(&sb, "\t%s := %s\n", strings.Join(resNames, ", "), call)
		for _, rn := range resNames {
			fmt.Fprintf(&sb, "\t_ = %s\n", rn)
		}
	} else {
		fmt.Fprintf(&sb, "\t%s\n", call)
	}
	sb.WriteString("\tcalled = true\n\tfmt.Println(\"RVC-REPLAY: RETURNED\")\n")
	sb.WriteString("\trvruntime.ReadMemStats(&rvM1)\n\tfmt.Println(\"RVC-REPLAY: ALLOC\", rvM1.TotalAlloc-rvM0.TotalAlloc)\n")
	if mode == "clause" {
		fmt.Fprintf(&sb, "\tfmt.Println(\"RVC-REPLAY: CLAUSE\", %s)\n", clauseCode)
	}
	sb.WriteString("}\n")
	src := sb.String()
	payload["replay_test_source"] = src
	payload["replay_package"] = fn.Pkg.Pkg.Path()
	payload["replay_mode"] = mode
	verdict, out := runReplay(vc.w.RepoDir, fn.Pkg.Pkg.Path(), src, mode)
	payload["replay_output"] = truncateTail(out, 3000)
	payload["replay"] = verdict
	return strings.HasPrefix(verdict, "reproduced")
}

func truncateTail(s string, n int) string {
	if len(s) > n {
		return "..." + s[len(s)-n:]
	}
	return s
}

// runReplay executes the generated in-package test through an overlay and interprets its output.
func runReplay(repoDir, pkgPath, src, mode string) (string, string) {
	rel := strings.TrimPrefix(strings.TrimPrefix(pkgPath, repoModule), "/")
	dir, err := os.MkdirTemp("", "rvc-replay-")
	if err != nil {
		return "not replayed: " + err.Error(), ""
	}
	defer os.RemoveAll(dir)
	testFile := filepath.Join(dir, "zz_rvc_replay_test.go")
	os.WriteFile(testFile, []byte(src), 0o644)
	ov := map[string]interface{}{"Replace": map[string]string{filepath.Join(repoDir, rel, "zz_rvc_replay_test.go"): testFile}}
	ob, _ := json.Marshal(ov)
	ovFile := filepath.Join(dir, "overlay.json")
	os.WriteFile(ovFile, ob, 0o644)
	timeout := "60s"
	if mode == "timeout" {
		timeout = "20s"
	}
	// address-space limit: a runaway allocation ends the test process instead of the machine
	sh := fmt.Sprintf("ulimit -v 12000000; cd %s && go test -overlay %s -vet=off -count=1 -v -timeout %s -run '^TestRvcReplay$' ./%s", repoDir, ovFile, timeout, rel)
	ctx, cancel := context.WithTimeout(context.Background(), 180*time.Second)
	defer cancel()
	cmd := exec.CommandContext(ctx, "bash", "-c", sh)
	cmd.Env = append(os.Environ(), "GOFLAGS=-mod=mod", "GOPROXY=off", "GOSUMDB=off", "GOTOOLCHAIN=local", "GOMAXPROCS=4")
	outb, _ := cmd.CombinedOutput()
	out := string(outb)
	has := func(s string) bool { return strings.Contains(out, s) }
	switch {
	case has("[build failed]") || has("[setup failed]"):
		return "not replayed: the generated test does not build", out
	case has("RVC-REPLAY: RANGE"):
		return "not replayed: values outside the range the replay evaluates exactly", out
	}
	switch mode {
	case "panic":
		if has("RVC-REPLAY: PANIC") {
			return "reproduced: the real function panics on the model's input", out
		}
		if has("fatal error:") {
			return "reproduced: the real function ends the process on the model's input (fatal error)", out
		}
		if has("RVC-REPLAY: RETURNED") {
			return "not reproduced: the real function returns normally on the model's input", out
		}
	case "alloc":
		if has("out of memory") || has("cannot allocate memory") {
			return "reproduced: the real function exhausts the address-space limit on the model's input", out
		}
		if m := regexp.MustCompile(`RVC-REPLAY: ALLOC (\d+)`).FindStringSubmatch(out); m != nil {
			n, _ := new(big.Int).SetString(m[1], 10)
			if n != nil && n.Cmp(big.NewInt(64<<20)) > 0 {
				return fmt.Sprintf("reproduced: the real function allocates %s bytes on the model's input (input stream and arguments are below 1 MiB)", m[1]), out
			}
			return "not reproduced: the real function allocates " + m[1] + " bytes on the model's input", out
		}
		if has("RVC-REPLAY: PANIC") {
			return "reproduced: the real function panics on the model's input", out
		}
	case "timeout":
		if has("test timed out") || ctx.Err() != nil {
			return "reproduced: the real function does not return within 20 s on the model's input", out
		}
		return "not reproduced: the real function returns on the model's input", out
	case "clause":
		if has("RVC-REPLAY: CLAUSE false") {
			return "reproduced: the clause is false on the real function's result for the model's input", out
		}
		if has("RVC-REPLAY: CLAUSE true") {
			return "not reproduced: the clause holds on the real function's result for the model's input", out
		}
		if has("RVC-REPLAY: PANIC") {
			return "not reproduced: the real function panics on the model's input (the clause is about normal returns)", out
		}
		if has("RVC-REPLAY: CLAUSE-PANIC") {
			return "not replayed: evaluating the clause on the real result panicked", out
		}
	}
	return "not replayed: no verdict from the test run", out
}

func cmdReplay(args []string) int {
	if len(args) < 1 {
		usage()
	}
	b, err := os.ReadFile(args[0])
	if err != nil {
		fmt.Fprintln(os.Stderr, err)
		return 2
	}
	var p map[string]interface{}
	if err := json.Unmarshal(b, &p); err != nil {
		fmt.Fprintln(os.Stderr, err)
		return 2
	}
	for _, k := range []string{"property", "obligation", "function", "description", "clause", "status", "replay"} {
		if v, ok := p[k]; ok {
			fmt.Printf("%s: %v\n", k, v)
		}
	}
	src, _ := p["replay_test_source"].(string)
	pkg, _ := p["replay_package"].(string)
	mode, _ := p["replay_mode"].(string)
	if src == "" {
		fmt.Println("no executable replay is stored for this obligation (see the solver output in the file)")
		return 0
	}
	verdict, out := runReplay(repoDirDefault(), pkg, src, mode)
	fmt.Println("re-run against", repoDirDefault(), "->", verdict)
	if os.Getenv("RVC_DEBUG") != "" {
		fmt.Println(out)
	}
	if strings.HasPrefix(verdict, "reproduced") {
		return 1
	}
	return 0
}

var _ *ssa.Function
