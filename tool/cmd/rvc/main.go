package main

import (
	"fmt"
	"os"
	"runtime/pprof"
)

var prof bool

func exit(code int) {
	if prof {
		pprof.StopCPUProfile()
	}
	os.Exit(code)
}

func usage() {
	fmt.Fprintln(os.Stderr, `usage:
  rvc dump <pkgpattern> <func|list>        print go/ssa of a function
  rvc check <property> [--tier quick|thorough] [--repo DIR] [--only FUNC] [--keep]
  rvc replay <path>
  rvc selftest [<property>...]`)
	os.Exit(2)
}

func main() {
	if len(os.Args) < 2 {
		usage()
	}
	if p := os.Getenv("RVC_PROF"); p != "" {
		if f, err := os.Create(p); err == nil {
			pprof.StartCPUProfile(f)
			defer pprof.StopCPUProfile()
			prof = true
		}
	}
	switch os.Args[1] {
	case "dump":
		if len(os.Args) < 4 {
			usage()
		}
		tags := ""
		if len(os.Args) > 4 {
			tags = os.Args[4]
		}
		w, err := loadWorld(repoDirDefault(), []string{os.Args[2]}, tags)
		if err != nil {
			fmt.Fprintln(os.Stderr, err)
			os.Exit(2)
		}
		w.dumpFunc(os.Args[3])
	case "check":
		exit(cmdCheck(os.Args[2:]))
	case "replay":
		os.Exit(cmdReplay(os.Args[2:]))
	case "selftest":
		os.Exit(cmdSelftest(os.Args[2:]))
	default:
		usage()
	}
}

func repoDirDefault() string {
	if d := os.Getenv("RVC_REPO"); d != "" {
		return d
	}
	return "/repo"
}
