package main

import (
	"fmt"
	"strings"
	"unicode"
)

// ---- specification expression AST ----

type Expr interface{}

type EIdent struct{ Name string }
type ENum struct{ Val string }
type EStr struct{ Val string }
type EUn struct {
	Op string
	X  Expr
}
type EBin struct {
	Op   string
	L, R Expr
}
type ECall struct {
	Fun  string
	Args []Expr
}
type EIndex struct{ X, I Expr }
type ESlice struct{ X, Lo, Hi Expr }
type ESel struct {
	X    Expr
	Name string
}
type EQuant struct {
	Forall bool
	Vars   [][2]string // name, sort/type text
	Body   Expr
}
type EIte struct{ C, A, B Expr }

type tok struct {
	k string // id num str op eof
	s string
}

func lexSpec(s string) ([]tok, error) {
	var out []tok
	i := 0
	ops3 := []string{"==>", "<<=", ">>=", "&^="}
	ops2 := []string{"==", "!=", "<=", ">=", "&&", "||", "<<", ">>", "::", "&^", "++"}
	for i < len(s) {
		c := rune(s[i])
		switch {
		case unicode.IsSpace(c):
			i++
		case unicode.IsLetter(c) || c == '_' || c == '$':
			j := i
			for j < len(s) && (unicode.IsLetter(rune(s[j])) || unicode.IsDigit(rune(s[j])) || s[j] == '_' || s[j] == '$') {
				j++
			}
			out = append(out, tok{"id", s[i:j]})
			i = j
		case unicode.IsDigit(c):
			j := i
			for j < len(s) && (unicode.IsDigit(rune(s[j])) || unicode.IsLetter(rune(s[j])) || s[j] == '_') {
				j++
			}
			out = append(out, tok{"num", strings.ReplaceAll(s[i:j], "_", "")})
			i = j
		case c == '"':
			j := i + 1
			for j < len(s) && s[j] != '"' {
				if s[j] == '\\' {
					j++
				}
				j++
			}
			if j >= len(s) {
				return nil, fmt.Errorf("unterminated string")
			}
			out = append(out, tok{"str", s[i+1 : j]})
			i = j + 1
		default:
			matched := false
			for _, o := range ops3 {
				if strings.HasPrefix(s[i:], o) {
					out = append(out, tok{"op", o})
					i += 3
					matched = true
					break
				}
			}
			if matched {
				continue
			}
			for _, o := range ops2 {
				if strings.HasPrefix(s[i:], o) {
					out = append(out, tok{"op", o})
					i += 2
					matched = true
					break
				}
			}
			if matched {
				continue
			}
			out = append(out, tok{"op", string(c)})
			i++
		}
	}
	out = append(out, tok{"eof", ""})
	return out, nil
}

type specParser struct {
	t []tok
	p int
}

func parseSpecExpr(s string) (e Expr, err error) {
	toks, err := lexSpec(s)
	if err != nil {
		return nil, err
	}
	p := &specParser{t: toks}
	defer func() {
		if r := recover(); r != nil {
			err = fmt.Errorf("spec parse error in %q: %v", s, r)
		}
	}()
	e = p.expr()
	if p.peek().k != "eof" {
		panic(fmt.Sprintf("unexpected %q", p.peek().s))
	}
	return e, nil
}

func (p *specParser) peek() tok { return p.t[p.p] }
func (p *specParser) next() tok { t := p.t[p.p]; p.p++; return t }
func (p *specParser) isOp(s string) bool {
	return p.peek().k == "op" && p.peek().s == s
}
func (p *specParser) expect(s string) {
	if !p.isOp(s) {
		panic(fmt.Sprintf("expected %q, got %q", s, p.peek().s))
	}
	p.p++
}

// expr := quant | ite
func (p *specParser) expr() Expr {
	if p.peek().k == "id" && (p.peek().s == "forall" || p.peek().s == "exists") {
		fa := p.next().s == "forall"
		var vars [][2]string
		for {
			var names []string
			names = append(names, p.next().s)
			for p.isOp(",") {
				p.next()
				names = append(names, p.next().s)
			}
			// type text up to "::" or ","
			ty := p.typeText()
			for _, n := range names {
				vars = append(vars, [2]string{n, ty})
			}
			if p.isOp(";") {
				p.next()
				continue
			}
			break
		}
		p.expect("::")
		body := p.expr()
		return &EQuant{Forall: fa, Vars: vars, Body: body}
	}
	return p.implies()
}

func (p *specParser) typeText() string {
	var sb strings.Builder
	depth := 0
	for {
		t := p.peek()
		if t.k == "eof" {
			break
		}
		if depth == 0 && t.k == "op" && (t.s == "::" || t.s == ";") {
			break
		}
		if t.k == "op" && (t.s == "(" || t.s == "[") {
			depth++
		}
		if t.k == "op" && (t.s == ")" || t.s == "]") {
			depth--
		}
		sb.WriteString(t.s)
		p.next()
	}
	return sb.String()
}

func (p *specParser) implies() Expr {
	l := p.ternary()
	if p.isOp("==>") {
		p.next()
		r := p.exprNoQuantOrQuant()
		return &EBin{"==>", l, r}
	}
	return l
}

func (p *specParser) exprNoQuantOrQuant() Expr { return p.expr() }

func (p *specParser) ternary() Expr {
	c := p.binary(0)
	if p.isOp("?") {
		p.next()
		a := p.ternary()
		p.expect(":")
		b := p.ternary()
		return &EIte{c, a, b}
	}
	return c
}

var binPrec = map[string]int{
	"||": 1, "&&": 2,
	"==": 3, "!=": 3, "<": 3, "<=": 3, ">": 3, ">=": 3,
	"+": 4, "-": 4, "|": 4, "^": 4, "++": 4,
	"*": 5, "/": 5, "%": 5, "<<": 5, ">>": 5, "&": 5, "&^": 5,
}

func (p *specParser) binary(min int) Expr {
	l := p.unary()
	for {
		t := p.peek()
		if t.k != "op" {
			return l
		}
		pr, ok := binPrec[t.s]
		if !ok || pr <= min {
			return l
		}
		p.next()
		r := p.binary(pr)
		l = &EBin{t.s, l, r}
	}
}

func (p *specParser) unary() Expr {
	if p.peek().k == "op" {
		switch p.peek().s {
		case "!", "-", "^", "*", "&":
			op := p.next().s
			x := p.unary()
			return &EUn{op, x}
		}
	}
	return p.postfix()
}

func (p *specParser) postfix() Expr {
	x := p.primary()
	for {
		switch {
		case p.isOp("."):
			p.next()
			x = &ESel{x, p.next().s}
		case p.isOp("["):
			p.next()
			var lo, hi Expr
			if !p.isOp(":") {
				lo = p.expr()
			}
			if p.isOp(":") {
				p.next()
				if !p.isOp("]") {
					hi = p.expr()
				}
				p.expect("]")
				x = &ESlice{x, lo, hi}
			} else {
				p.expect("]")
				x = &EIndex{x, lo}
			}
		case p.isOp("("):
			// call: callee must be ident or selector chain (pkg.Func)
			name := exprName(x)
			if name == "" {
				panic("call of non-name")
			}
			p.next()
			var args []Expr
			for !p.isOp(")") {
				args = append(args, p.expr())
				if p.isOp(",") {
					p.next()
				}
			}
			p.expect(")")
			x = &ECall{name, args}
		default:
			return x
		}
	}
}

func exprName(x Expr) string {
	switch x := x.(type) {
	case *EIdent:
		return x.Name
	case *ESel:
		n := exprName(x.X)
		if n == "" {
			return ""
		}
		return n + "." + x.Name
	}
	return ""
}

func (p *specParser) primary() Expr {
	t := p.next()
	switch t.k {
	case "id":
		return &EIdent{t.s}
	case "num":
		return &ENum{t.s}
	case "str":
		return &EStr{t.s}
	case "op":
		if t.s == "(" {
			e := p.expr()
			p.expect(")")
			return e
		}
	}
	panic(fmt.Sprintf("unexpected token %q", t.s))
}

func exprString(e Expr) string {
	switch e := e.(type) {
	case *EIdent:
		return e.Name
	case *ENum:
		return e.Val
	case *EStr:
		return fmt.Sprintf("%q", e.Val)
	case *EUn:
		return e.Op + exprString(e.X)
	case *EBin:
		return "(" + exprString(e.L) + " " + e.Op + " " + exprString(e.R) + ")"
	case *ECall:
		var a []string
		for _, x := range e.Args {
			a = append(a, exprString(x))
		}
		return e.Fun + "(" + strings.Join(a, ", ") + ")"
	case *EIndex:
		return exprString(e.X) + "[" + exprString(e.I) + "]"
	case *ESlice:
		lo, hi := "", ""
		if e.Lo != nil {
			lo = exprString(e.Lo)
		}
		if e.Hi != nil {
			hi = exprString(e.Hi)
		}
		return exprString(e.X) + "[" + lo + ":" + hi + "]"
	case *ESel:
		return exprString(e.X) + "." + e.Name
	case *EQuant:
		q := "exists"
		if e.Forall {
			q = "forall"
		}
		var vs []string
		for _, v := range e.Vars {
			vs = append(vs, v[0]+" "+v[1])
		}
		return q + " " + strings.Join(vs, "; ") + " :: " + exprString(e.Body)
	case *EIte:
		return "(" + exprString(e.C) + " ? " + exprString(e.A) + " : " + exprString(e.B) + ")"
	}
	return "?"
}
