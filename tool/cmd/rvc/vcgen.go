package main

import (
	"fmt"
	"go/token"
	"go/types"
	"sort"
	"strings"

	"golang.org/x/tools/go/ssa"
)

// ---- symbolic state ----

// State maps component name -> current term. A component that is absent has
// its function-entry value (vc.compInit).
type State struct{ m map[string]string }

func newState() *State { return &State{m: map[string]string{}} }
func (s *State) clone() *State {
	n := newState()
	for k, v := range s.m {
		n.m[k] = v
	}
	return n
}

type stepKind int

const (
	sDecl stepKind = iota
	sAssume
	sOblig
	sCover
)

type Step struct {
	Kind stepKind
	Text string
	Ob   *Oblig
}

type Oblig struct {
	ID     string
	Fn     string
	Kind   string
	Tags   []string
	Desc   string
	Pos    string
	Reach  string
	Goal   string
	Clause *Clause
	step   int // index in vc.steps
	// results
	Status  string // proved refuted undecided
	Solver  string
	Seconds float64
	Output  string
	Model   string
	IsCover bool
	Except  string // known-finding except region (SMT), optional
	KnownFinding *KnownFinding
}

type VC struct {
	w    *World
	db   *SpecDB
	top  *ssa.Function
	spec *FuncSpec
	name string
	bv   bool

	decls    []string
	declared map[string]bool
	steps    []*Step
	n        int
	comps    map[string]string // component -> sort
	obligs   []*Oblig
	notes    map[string]bool
	unsup    []string
	tids     map[string]int
	strlits  map[string]string
	frames   int
	callees  map[string]bool // contracts used (for trusted-base reporting)
	weak     map[string]bool
	topFrame *Frame
	ncChecked map[*Clause]bool
	atMatched map[*AtSpec]bool // at-clauses that applied to at least one program point
}

func mustParse(s string) Expr {
	e, err := parseSpecExpr(s)
	if err != nil {
		return &EIdent{"$parse_error"}
	}
	return e
}

func newVC(w *World, fn *ssa.Function, spec *FuncSpec) *VC {
	vc := &VC{w: w, db: w.Specs, top: fn, spec: spec, name: qualName(fn),
		declared: map[string]bool{}, comps: map[string]string{}, notes: map[string]bool{},
		tids: map[string]int{}, strlits: map[string]string{}, callees: map[string]bool{}, weak: map[string]bool{}, atMatched: map[*AtSpec]bool{}, ncChecked: map[*Clause]bool{}}
	vc.bv = spec != nil && spec.Arith == "bv"
	return vc
}

func (vc *VC) unsupportedf(format string, a ...interface{}) {
	msg := fmt.Sprintf(format, a...)
	for _, u := range vc.unsup {
		if u == msg {
			return
		}
	}
	vc.unsup = append(vc.unsup, msg)
}

func (vc *VC) note(format string, a ...interface{}) { vc.notes[fmt.Sprintf(format, a...)] = true }

func (vc *VC) isBoxedStream(kind, name string) bool { return vc.notes["\x00"+kind+":"+name] }

func (vc *VC) fresh(prefix string) string {
	vc.n++
	return fmt.Sprintf("%s!%d", smtIdent(prefix), vc.n)
}

func (vc *VC) declare(name, sort string) {
	vc.steps = append(vc.steps, &Step{Kind: sDecl, Text: fmt.Sprintf("(declare-const %s %s)", name, sort)})
}

func (vc *VC) define(name, sort, body string) {
	if strings.HasPrefix(body, "(box_Pbufio_Reader ") {
		vc.notes["\x00rd:"+name] = true
	}
	if strings.HasPrefix(body, "(box_Pbufio_Writer ") {
		vc.notes["\x00wr:"+name] = true
	}
	vc.steps = append(vc.steps, &Step{Kind: sDecl, Text: fmt.Sprintf("(define-fun %s () %s %s)", name, sort, body)})
}

func (vc *VC) assume(f string) {
	if f == "" || f == "true" {
		return
	}
	vc.steps = append(vc.steps, &Step{Kind: sAssume, Text: f})
}

func (vc *VC) assumeIf(reach, f string) {
	if f == "" || f == "true" {
		return
	}
	if reach == "true" {
		vc.assume(f)
		return
	}
	vc.assume(fmt.Sprintf("(=> %s %s)", reach, f))
}

// freshVal declares a fresh constant of Go type t, assuming its typing fact under reach.
func (vc *VC) freshVal(prefix string, t types.Type, reach string) Term {
	name := vc.fresh(prefix)
	s := vc.sortOf(t)
	vc.declare(name, s)
	vc.assumeIf(reach, vc.wf(t, name))
	return Term{name, s, t}
}

func (vc *VC) oblige(kind string, tags []string, reach, goal, desc string, pos token.Pos, cl *Clause) *Oblig {
	if goal == "true" {
		return nil
	}
	ob := &Oblig{Fn: vc.name, Kind: kind, Tags: tags, Reach: reach, Goal: goal, Desc: desc, Clause: cl}
	if activeProp != "" && !relevant(ob, activeProp) {
		// serves another property only: neither checked nor assumed in this run, so that a failure
		// of it cannot mask (by being assumed downstream) an obligation of the property being checked
		return nil
	}
	if pos.IsValid() && vc.w.Fset != nil {
		p := vc.w.Fset.Position(pos)
		ob.Pos = fmt.Sprintf("%s:%d", relRepo(p.Filename), p.Line)
	}
	ob.ID = fmt.Sprintf("%s#%s.%d", vc.name, kind, vc.countKind(kind))
	if kf := vc.findKF(kind, cl, desc); kf != nil && vc.topFrame != nil {
		ctx := vc.topFrame.specCtx(vc.topFrame.entry, vc.topFrame.entry, nil, 0)
		var used []string
		ctx.usedCalls = &used
		ex, err := ctx.evalBool(mustParse(kf.Except))
		if err != nil {
			vc.unsupportedf("known finding except %q: %v", kf.Except, err)
		} else {
			// the region only exists on paths that actually made the calls it mentions
			ob.Except = and(append(used, ex)...)
			ob.KnownFinding = kf
		}
	}
	ob.step = len(vc.steps)
	vc.steps = append(vc.steps, &Step{Kind: sOblig, Ob: ob})
	vc.obligs = append(vc.obligs, ob)
	// after checking, the fact may be assumed downstream (postconditions are checked independently)
	if strings.HasPrefix(kind, "ensures") || kind == "lemma" || kind == "implements" || kind == "frame" {
		return ob
	}
	if ob.Except != "" {
		vc.assumeIf(reach, fmt.Sprintf("(or %s %s)", ob.Except, goal))
	} else {
		vc.assumeIf(reach, goal)
	}
	return ob
}

func (vc *VC) cover(reach, desc string) {
	ob := &Oblig{Fn: vc.name, Kind: "cover", Reach: reach, Goal: "false", Desc: desc, IsCover: true}
	ob.ID = fmt.Sprintf("%s#cover.%d", vc.name, vc.countKind("cover"))
	ob.step = len(vc.steps)
	vc.steps = append(vc.steps, &Step{Kind: sCover, Ob: ob})
	vc.obligs = append(vc.obligs, ob)
}

func (vc *VC) countKind(kind string) int {
	n := 0
	for _, o := range vc.obligs {
		if o.Kind == kind {
			n++
		}
	}
	return n
}

func relRepo(p string) string {
	for _, pre := range []string{"/repo/"} {
		if strings.HasPrefix(p, pre) {
			return strings.TrimPrefix(p, pre)
		}
	}
	if i := strings.Index(p, "/rend/"); i >= 0 {
		return p[i+6:]
	}
	return p
}

// ---- state components ----

func (vc *VC) comp(name, sort string) {
	if _, ok := vc.comps[name]; ok {
		return
	}
	vc.comps[name] = sort
	// initial (function entry) value; declared in the header
	vc.decls = append(vc.decls, fmt.Sprintf("(declare-const %s %s)", compInit(name), sort))
}

func compInit(name string) string { return "|" + name + "@0|" }

func (vc *VC) get(st *State, comp string) string {
	if v, ok := st.m[comp]; ok {
		return v
	}
	return compInit(comp)
}

// set names the new value of a component (keeps terms small).
func (vc *VC) set(st *State, comp, val string) {
	if len(val) > 60 {
		n := vc.fresh(strings.NewReplacer("!", "_", "|", "").Replace(comp))
		vc.define(n, vc.comps[comp], val)
		val = n
	}
	st.m[comp] = val
}

func (vc *VC) havoc(st *State, comp string) string {
	n := vc.fresh(strings.NewReplacer("!", "_", "|", "").Replace(comp))
	vc.declare(n, vc.comps[comp])
	st.m[comp] = n
	return n
}

func (vc *VC) memComp(elem types.Type) string {
	if a, ok := elem.Underlying().(*types.Array); ok {
		return vc.arrComp(a.Elem())
	}
	name := "Mem!" + typeKey(elem)
	vc.comp(name, fmt.Sprintf("(Array Int %s)", vc.sortOf(elem)))
	return name
}

func (vc *VC) arrComp(elem types.Type) string {
	name := "Arr!" + typeKey(elem)
	vc.comp(name, fmt.Sprintf("(Array Int (Array %s %s))", vc.isort(), vc.sortOf(elem)))
	return name
}

// allocComp2: the component an Alloc lives in. A fixed-size array variable that is only indexed and
// copied as a whole (never sliced, never passed on or stored as a pointer) cannot share its storage
// with any slice; it gets a component of its own, so that writes to it do not stand between a slice
// read and the facts known about that slice.
func (vc *VC) allocComp2(a *ssa.Alloc) string {
	elem := a.Type().(*types.Pointer).Elem()
	if at, ok := elem.Underlying().(*types.Array); ok && privateArray(a) {
		name := "ArrL!" + typeKey(at.Elem())
		vc.comp(name, fmt.Sprintf("(Array Int (Array %s %s))", vc.isort(), vc.sortOf(at.Elem())))
		return name
	}
	return vc.memComp(elem)
}

func privateArray(a *ssa.Alloc) bool {
	refs := a.Referrers()
	if refs == nil {
		return false
	}
	for _, r := range *refs {
		switch r := r.(type) {
		case *ssa.IndexAddr:
			ir := r.Referrers()
			if ir == nil {
				return false
			}
			for _, u := range *ir {
				switch u := u.(type) {
				case *ssa.Store:
					if u.Addr != r {
						return false
					}
				case *ssa.UnOp, *ssa.DebugRef:
				default:
					return false
				}
			}
		case *ssa.UnOp, *ssa.DebugRef:
		case *ssa.Store:
			if r.Addr != a {
				return false
			}
		default:
			return false
		}
	}
	return true
}

func (vc *VC) globalComp(g *ssa.Global) string {
	name := "G!" + shortPkg(g.Pkg.Pkg.Path()) + "." + g.Name()
	vc.comp(name, vc.sortOf(g.Type().(*types.Pointer).Elem()))
	return name
}

func (vc *VC) allocComp() string {
	vc.comp("$alloc", "Int")
	return "$alloc"
}

// newRef allocates a fresh object reference.
func (vc *VC) newRef(st *State, reach string) string {
	c := vc.allocComp()
	cur := vc.get(st, c)
	r := vc.fresh("ref")
	vc.define(r, "Int", cur)
	vc.set(st, c, fmt.Sprintf("(+ %s 1)", cur))
	return r
}

// ---- lvalues ----

type pathElem struct {
	field   int        // field index, -1 for array index
	structT types.Type // struct type for field access
	idx     string
}

type LVal struct {
	Comp string
	Ref  string // "" for globals
	Path []pathElem
	T    types.Type // type of the addressed location
}

func (vc *VC) rootOf(lv *LVal, st *State) string {
	c := vc.get(st, lv.Comp)
	if lv.Ref == "" {
		return c
	}
	return fmt.Sprintf("(select %s %s)", c, lv.Ref)
}

func (vc *VC) loadL(lv *LVal, st *State) Term {
	x := vc.rootOf(lv, st)
	for _, pe := range lv.Path {
		if pe.field >= 0 {
			s := vc.sortOf(pe.structT)
			f := pe.structT.Underlying().(*types.Struct).Field(pe.field)
			x = fmt.Sprintf("(%s_%s %s)", s, f.Name(), x)
		} else {
			x = fmt.Sprintf("(select %s %s)", x, pe.idx)
		}
	}
	return Term{x, vc.sortOf(lv.T), lv.T}
}

func (vc *VC) updatePath(x string, path []pathElem, v string) string {
	if len(path) == 0 {
		return v
	}
	pe := path[0]
	if pe.field >= 0 {
		s := vc.sortOf(pe.structT)
		st := pe.structT.Underlying().(*types.Struct)
		var parts []string
		for i := 0; i < st.NumFields(); i++ {
			acc := fmt.Sprintf("(%s_%s %s)", s, st.Field(i).Name(), x)
			if i == pe.field {
				parts = append(parts, vc.updatePath(acc, path[1:], v))
			} else {
				parts = append(parts, acc)
			}
		}
		return fmt.Sprintf("(mk_%s %s)", s, strings.Join(parts, " "))
	}
	return fmt.Sprintf("(store %s %s %s)", x, pe.idx, vc.updatePath(fmt.Sprintf("(select %s %s)", x, pe.idx), path[1:], v))
}

func (vc *VC) storeL(lv *LVal, v string, st *State) {
	root := vc.rootOf(lv, st)
	if len(lv.Path) > 0 && len(root) > 40 {
		n := vc.fresh("root")
		vc.define(n, vc.rootSort(lv), root)
		root = n
	}
	nr := vc.updatePath(root, lv.Path, v)
	if lv.Ref == "" {
		vc.set(st, lv.Comp, nr)
	} else {
		vc.set(st, lv.Comp, fmt.Sprintf("(store %s %s %s)", vc.get(st, lv.Comp), lv.Ref, nr))
	}
}

func (vc *VC) rootSort(lv *LVal) string {
	s := vc.comps[lv.Comp]
	if lv.Ref == "" {
		return s
	}
	// (Array Int X) -> X
	n, _ := readSx(s)
	return n.list[2].String()
}

// ---- frames ----

type Exit struct {
	reach   string
	st      *State
	results []Term
	kind    string // return | panic
	pos     token.Pos
}

type deferRec struct {
	instr *ssa.Defer
	block *ssa.BasicBlock
}

type Frame struct {
	vc       *VC
	fn       *ssa.Function
	id       string
	vals     map[ssa.Value]Term
	lvals    map[ssa.Value]*LVal
	parent   *Frame
	freeL    map[*ssa.FreeVar]*LVal
	freeV    map[*ssa.FreeVar]Term
	reachIn  map[*ssa.BasicBlock]string
	reachOut map[*ssa.BasicBlock]string
	stOut    map[*ssa.BasicBlock]*State
	stHead   map[*ssa.BasicBlock]*State // state right after havoc at loop heads
	exits    []*Exit
	defers   []*deferRec
	loopOrd  map[*ssa.BasicBlock]int
	override map[ssa.Value]Term
	entry    *State
	spec     *FuncSpec
	isTop    bool
	callOrd  map[string]int
	curReach string
	curBlock *ssa.BasicBlock
	curIdx   int
	tupleParts map[ssa.Value][]Term
	inDefer  int
	stNow    *State
	callRets map[string]Term // "<field>_<Method>_<k>" -> first result of that call (for known-finding regions)
	callCnt  map[string]int
	callReach map[string]string
	chanFacts []*chanFact
	letVals  map[string]Term
}

// chanFact: a per-element fact about a channel returned by a call, instantiated at receives.
type chanFact struct {
	ch   string // channel handle term
	ctx  *SpecCtx
	v    string
	body Expr
	text string
}

func (vc *VC) newFrame(fn *ssa.Function, parent *Frame) *Frame {
	vc.frames++
	return &Frame{vc: vc, fn: fn, id: fmt.Sprintf("f%d", vc.frames-1), vals: map[ssa.Value]Term{}, lvals: map[ssa.Value]*LVal{},
		parent: parent, freeL: map[*ssa.FreeVar]*LVal{}, freeV: map[*ssa.FreeVar]Term{},
		reachIn: map[*ssa.BasicBlock]string{}, reachOut: map[*ssa.BasicBlock]string{},
		stOut: map[*ssa.BasicBlock]*State{}, stHead: map[*ssa.BasicBlock]*State{}, loopOrd: map[*ssa.BasicBlock]int{}, callOrd: map[string]int{},
		tupleParts: map[ssa.Value][]Term{}}
}

func isBackEdge(from, to *ssa.BasicBlock) bool { return to.Dominates(from) }

func rpo(fn *ssa.Function) []*ssa.BasicBlock {
	seen := map[*ssa.BasicBlock]bool{}
	var post []*ssa.BasicBlock
	var dfs func(b *ssa.BasicBlock)
	dfs = func(b *ssa.BasicBlock) {
		seen[b] = true
		for _, s := range b.Succs {
			if !seen[s] && !isBackEdge(b, s) {
				dfs(s)
			}
		}
		post = append(post, b)
	}
	dfs(fn.Blocks[0])
	if fn.Recover != nil && !seen[fn.Recover] {
		// recover block handled separately
	}
	for i, j := 0, len(post)-1; i < j; i, j = i+1, j-1 {
		post[i], post[j] = post[j], post[i]
	}
	return post
}

// naturalLoop returns the blocks of the loop headed by h.
func naturalLoop(h *ssa.BasicBlock) map[*ssa.BasicBlock]bool {
	body := map[*ssa.BasicBlock]bool{h: true}
	var work []*ssa.BasicBlock
	for _, p := range h.Preds {
		if isBackEdge(p, h) {
			if !body[p] {
				body[p] = true
				work = append(work, p)
			}
		}
	}
	for len(work) > 0 {
		b := work[len(work)-1]
		work = work[:len(work)-1]
		for _, p := range b.Preds {
			if !body[p] {
				body[p] = true
				work = append(work, p)
			}
		}
	}
	return body
}

func isLoopHead(b *ssa.BasicBlock) bool {
	for _, p := range b.Preds {
		if isBackEdge(p, b) {
			return true
		}
	}
	return false
}

func edgeCond(from, to *ssa.BasicBlock, fr *Frame) string {
	last := from.Instrs[len(from.Instrs)-1]
	if iff, ok := last.(*ssa.If); ok {
		c := fr.val(iff.Cond).S
		if from.Succs[0] == to && from.Succs[1] == to {
			return "true"
		}
		if from.Succs[0] == to {
			return c
		}
		return fmt.Sprintf("(not %s)", c)
	}
	return "true"
}

func and(parts ...string) string {
	var ps []string
	for _, p := range parts {
		if p == "true" || p == "" {
			continue
		}
		if p == "false" {
			return "false"
		}
		ps = append(ps, p)
	}
	if len(ps) == 0 {
		return "true"
	}
	if len(ps) == 1 {
		return ps[0]
	}
	return "(and " + strings.Join(ps, " ") + ")"
}

func or(parts ...string) string {
	var ps []string
	for _, p := range parts {
		if p == "false" || p == "" {
			continue
		}
		if p == "true" {
			return "true"
		}
		ps = append(ps, p)
	}
	if len(ps) == 0 {
		return "false"
	}
	if len(ps) == 1 {
		return ps[0]
	}
	return "(or " + strings.Join(ps, " ") + ")"
}

// run symbolically executes fr.fn from the given entry state.
func (fr *Frame) run(entry *State, reach string) {
	vc := fr.vc
	fr.entry = entry
	fn := fr.fn
	order := rpo(fn)
	// loop ordinals by block index order
	var heads []*ssa.BasicBlock
	for _, b := range fn.Blocks {
		if isLoopHead(b) {
			heads = append(heads, b)
		}
	}
	sort.Slice(heads, func(i, j int) bool { return heads[i].Index < heads[j].Index })
	for i, h := range heads {
		fr.loopOrd[h] = i
	}
	for _, b := range order {
		var st *State
		var r string
		type inEdge struct {
			p    *ssa.BasicBlock
			cond string
		}
		var edges []inEdge
		if b == fn.Blocks[0] {
			st = entry.clone()
			r = reach
			fr.applyEntryGhosts(st)
		} else {
			for _, p := range b.Preds {
				if isBackEdge(p, b) {
					continue
				}
				pr, ok := fr.reachOut[p]
				if !ok || pr == "false" {
					continue
				}
				c := and(pr, edgeCond(p, b, fr))
				if c == "false" {
					continue
				}
				// name the edge
				en := vc.fresh(fmt.Sprintf("%s_e%d_%d", fr.id, p.Index, b.Index))
				vc.define(en, "Bool", c)
				edges = append(edges, inEdge{p, en})
			}
			if len(edges) == 0 {
				fr.reachOut[b] = "false"
				continue
			}
			var conds []string
			for _, e := range edges {
				conds = append(conds, e.cond)
			}
			rn := vc.fresh(fmt.Sprintf("%s_r%d", fr.id, b.Index))
			vc.define(rn, "Bool", or(conds...))
			r = rn
			// merge states
			if len(edges) == 1 {
				st = fr.stOut[edges[0].p].clone()
			} else {
				st = newState()
				keys := map[string]bool{}
				for _, e := range edges {
					for k := range fr.stOut[e.p].m {
						keys[k] = true
					}
				}
				var ks []string
				for k := range keys {
					ks = append(ks, k)
				}
				sort.Strings(ks)
				for _, k := range ks {
					first := vc.get(fr.stOut[edges[0].p], k)
					same := true
					for _, e := range edges[1:] {
						if vc.get(fr.stOut[e.p], k) != first {
							same = false
						}
					}
					if same {
						st.m[k] = first
						continue
					}
					n := vc.fresh(strings.NewReplacer("!", "_", "|", "").Replace(k))
					vc.declare(n, vc.comps[k])
					for _, e := range edges {
						vc.assume(fmt.Sprintf("(=> %s (= %s %s))", e.cond, n, vc.get(fr.stOut[e.p], k)))
					}
					st.m[k] = n
				}
			}
			// phis (entry values for loop heads; merged values otherwise)
			for _, ins := range b.Instrs {
				phi, ok := ins.(*ssa.Phi)
				if !ok {
					break
				}
				n := fmt.Sprintf("%s_%s", fr.id, phi.Name())
				if isLoopHead(b) {
					n += "_in"
				}
				s := vc.sortOf(phi.Type())
				vc.declare(n, s)
				for _, e := range edges {
					for i, p := range b.Preds {
						if p == e.p {
							vc.assume(fmt.Sprintf("(=> %s (= %s %s))", e.cond, n, fr.val(phi.Edges[i]).S))
						}
					}
				}
				fr.vals[phi] = Term{n, s, phi.Type()}
			}
		}
		fr.reachIn[b] = r
		if isLoopHead(b) {
			fr.loopHead(b, st, r)
		}
		fr.curBlock = b
		fr.curReach = r
		fr.execBlock(b, st)
	}
}

// loopHead checks the invariants on entry, havocs, and assumes the invariants.
func (fr *Frame) loopHead(b *ssa.BasicBlock, st *State, r string) {
	vc := fr.vc
	ord := fr.loopOrd[b]
	var ls *LoopSpec
	if fr.spec != nil {
		ls = fr.spec.Loops[ord]
	}
	if ls == nil {
		ls = &LoopSpec{}
		if fr.isTop {
			vc.note("loop %d of %s has no invariant (treated as invariant true)", ord, vc.name)
		}
	}
	// snapshots taken at loop entry (`loop N let B = e`): usable in this loop's clauses and below
	for _, l := range ls.Lets {
		ctx := fr.specCtx(st, fr.entry, b, 0)
		t, err := ctx.eval(l.E)
		if err != nil {
			vc.unsupportedf("loop %d let %s: %v", ord, l.Text, err)
			continue
		}
		n := vc.fresh("let_" + l.Name)
		vc.define(n, t.Sort, t.S)
		if fr.letVals == nil {
			fr.letVals = map[string]Term{}
		}
		fr.letVals[l.Name] = Term{n, t.Sort, t.T}
	}
	// trusted facts about the environment at loop entry (listed as assumptions in the evidence)
	for _, as := range ls.Assumes {
		ctx := fr.specCtx(st, fr.entry, b, 0)
		g, err := ctx.evalBool(as.E)
		if err != nil {
			vc.unsupportedf("loop %d assume: %v", ord, err)
			continue
		}
		vc.assumeIf(r, g)
		vc.note("assumed at entry of loop %d of %s: %s", ord, vc.name, as.Text)
	}
	// 1. invariants on entry (phis hold their entry values)
	for i, inv := range ls.Invariants {
		ctx := fr.specCtx(st, fr.entry, b, 0)
		g, err := ctx.evalBool(inv.E)
		if err != nil {
			vc.unsupportedf("loop %d invariant %d: %v", ord, i, err)
			continue
		}
		vc.oblige("invariant-entry", fr.tagsFor(inv.Tags), r, g, fmt.Sprintf("loop %d invariant holds on entry: %s", ord, inv.Text), b.Instrs[0].Pos(), inv)
	}
	// 2. havoc
	pre := st.clone()
	mods := fr.loopModifies(b)
	for _, c := range mods {
		vc.havoc(st, c)
	}
	if contains(mods, "$alloc") {
		vc.assumeIf(r, fmt.Sprintf("(>= %s %s)", vc.get(st, "$alloc"), vc.get(pre, "$alloc")))
	}
	// frame: cells allocated before the loop and not written inside it keep their contents
	body := naturalLoop(b)
	for v, lv := range fr.lvals {
		a, ok := v.(*ssa.Alloc)
		if !ok || lv.Ref == "" || len(lv.Path) != 0 || !contains(mods, lv.Comp) {
			continue
		}
		if body[a.Block()] || allocWrittenIn(a, body, map[ssa.Value]bool{}) {
			continue
		}
		vc.assumeIf(r, fmt.Sprintf("(= (select %s %s) (select %s %s))", vc.get(st, lv.Comp), lv.Ref, vc.get(pre, lv.Comp), lv.Ref))
	}
	for _, ins := range b.Instrs {
		phi, ok := ins.(*ssa.Phi)
		if !ok {
			break
		}
		fr.vals[phi] = Term{} // cleared
		n := fmt.Sprintf("%s_%s", fr.id, phi.Name())
		s := vc.sortOf(phi.Type())
		vc.declare(n, s)
		vc.assumeIf(r, vc.wf(phi.Type(), n))
		if fr.override == nil {
			fr.override = map[ssa.Value]Term{}
		}
		fr.vals[phi] = Term{n, s, phi.Type()}
	}
	fr.stHead[b] = st.clone()
	// 3. assume invariants
	for _, inv := range ls.Invariants {
		ctx := fr.specCtx(st, fr.entry, b, 0)
		g, err := ctx.evalBool(inv.E)
		if err != nil {
			continue
		}
		vc.assumeIf(r, g)
	}
	// snapshots at the head of the current iteration (`loop N iterlet B = e`): for the clauses of
	// the loops and program points inside this loop's body
	for _, l := range ls.IterLets {
		ctx := fr.specCtx(st, fr.entry, b, 0)
		t, err := ctx.eval(l.E)
		if err != nil {
			vc.unsupportedf("loop %d iterlet %s: %v", ord, l.Text, err)
			continue
		}
		n := vc.fresh("iterlet_" + l.Name)
		vc.define(n, t.Sort, t.S)
		if fr.letVals == nil {
			fr.letVals = map[string]Term{}
		}
		fr.letVals[l.Name] = Term{n, t.Sort, t.T}
	}
	for _, as := range ls.IterAssumes {
		ctx := fr.specCtx(st, fr.entry, b, 0)
		g, err := ctx.evalBool(as.E)
		if err != nil {
			vc.unsupportedf("loop %d assume_iter: %v", ord, err)
			continue
		}
		vc.assumeIf(r, g)
		vc.note("assumed in every iteration of loop %d of %s: %s", ord, vc.name, as.Text)
	}
	if ls.Decreases != nil {
		ctx := fr.specCtx(st, fr.entry, b, 0)
		d, err := ctx.eval(ls.Decreases.E)
		if err == nil {
			n := vc.fresh(fmt.Sprintf("%s_variant%d", fr.id, ord))
			vc.define(n, d.Sort, d.S)
			fr.vals[variantKey{b}] = Term{n, d.Sort, nil}
		} else {
			vc.unsupportedf("loop %d decreases: %v", ord, err)
		}
	}
}

type variantKey struct{ b *ssa.BasicBlock }

func (variantKey) Name() string                  { return "variant" }
func (variantKey) String() string                { return "variant" }
func (variantKey) Type() types.Type              { return nil }
func (variantKey) Parent() *ssa.Function         { return nil }
func (variantKey) Referrers() *[]ssa.Instruction { return nil }
func (variantKey) Pos() token.Pos                { return token.NoPos }

// backEdge checks invariant preservation for the edge from -> head.
func (fr *Frame) backEdge(from, head *ssa.BasicBlock, st *State, reach string) {
	vc := fr.vc
	ord := fr.loopOrd[head]
	var ls *LoopSpec
	if fr.spec != nil {
		ls = fr.spec.Loops[ord]
	}
	if ls == nil {
		return
	}
	// phis take the values flowing along this edge
	saved := map[ssa.Value]Term{}
	for _, ins := range head.Instrs {
		phi, ok := ins.(*ssa.Phi)
		if !ok {
			break
		}
		for i, p := range head.Preds {
			if p == from {
				saved[phi] = fr.vals[phi]
				fr.vals[phi] = fr.val(phi.Edges[i])
			}
		}
	}
	// evaluate all before restoring (phi edges may refer to other phis: parallel assignment)
	type pending struct {
		inv *Clause
		g   string
	}
	var ps []pending
	for i, inv := range ls.Invariants {
		ctx := fr.specCtx(st, fr.entry, head, 0)
		g, err := ctx.evalBool(inv.E)
		if err != nil {
			vc.unsupportedf("loop %d invariant %d (back edge): %v", ord, i, err)
			continue
		}
		ps = append(ps, pending{inv, g})
	}
	var dec string
	var decSort string
	if ls.Decreases != nil {
		ctx := fr.specCtx(st, fr.entry, head, 0)
		d, err := ctx.eval(ls.Decreases.E)
		if err == nil {
			dec = d.S
			decSort = d.Sort
		}
	}
	for k, v := range saved {
		fr.vals[k] = v
	}
	for _, p := range ps {
		vc.oblige("invariant-preserved", fr.tagsFor(p.inv.Tags), reach, p.g, fmt.Sprintf("loop %d invariant preserved: %s", ord, p.inv.Text), from.Instrs[len(from.Instrs)-1].Pos(), p.inv)
	}
	if dec != "" {
		v0 := fr.vals[variantKey{head}]
		if v0.S != "" {
			var g string
			if decSort == "Int" {
				g = fmt.Sprintf("(and (<= 0 %s) (< %s %s))", v0.S, dec, v0.S)
			} else {
				g = fmt.Sprintf("(bvult %s %s)", dec, v0.S)
			}
			vc.oblige("variant", fr.tagsFor(ls.Decreases.Tags), reach, g, fmt.Sprintf("loop %d variant decreases and is bounded: %s", ord, ls.Decreases.Text), from.Instrs[len(from.Instrs)-1].Pos(), ls.Decreases)
		}
	}
}

func contains(xs []string, x string) bool {
	for _, y := range xs {
		if y == x {
			return true
		}
	}
	return false
}

func (fr *Frame) tagsFor(tags []string) []string {
	if len(tags) > 0 {
		return tags
	}
	if fr.vc.spec != nil {
		return fr.vc.spec.Props
	}
	return nil
}

// loopModifies computes the state components possibly written inside the loop headed by h.
func (fr *Frame) loopModifies(h *ssa.BasicBlock) []string {
	vc := fr.vc
	body := naturalLoop(h)
	set := map[string]bool{}
	all := false
	for b := range body {
		for _, ins := range b.Instrs {
			switch ins := ins.(type) {
			case *ssa.Store:
				for _, c := range fr.compsOfAddr(ins.Addr) {
					set[c] = true
				}
			case *ssa.Alloc:
				set["$alloc"] = true
				set[vc.allocComp2(ins)] = true
			case *ssa.MakeSlice:
				set["$alloc"] = true
				set[vc.arrComp(ins.Type().Underlying().(*types.Slice).Elem())] = true
			case *ssa.MakeMap:
				set["$alloc"] = true
				set[vc.mapComp(ins.Type().Underlying().(*types.Map))] = true
				set[vc.mapLenComp()] = true
			case *ssa.MakeChan:
				set["$alloc"] = true
				set[vc.chposComp()] = true
				set[vc.chsentComp()] = true
				vc.comp("$chclosed", "(Array Int Bool)")
				set["$chclosed"] = true
			case *ssa.MakeInterface, *ssa.MakeClosure:
				set["$alloc"] = true
			case *ssa.MapUpdate:
				set[vc.mapComp(ins.Map.Type().Underlying().(*types.Map))] = true
				set[vc.mapLenComp()] = true
				if fr.spec != nil {
					for _, at := range fr.spec.Ats {
						if at.Ghost != nil && strings.HasPrefix(at.Callee, "mapupdate:") {
							for _, g := range vc.db.Ghosts {
								if g.Name == at.Ghost.Name {
									vc.comp(g.Name, g.Sort)
									set[g.Name] = true
								}
							}
						}
					}
				}
			case *ssa.Send:
				set[vc.chsentComp()] = true
				if fr.spec != nil {
					for _, at := range fr.spec.Ats {
						if at.Ghost != nil && strings.HasPrefix(at.Callee, "send:") && sendChanMatches(ins, strings.TrimPrefix(at.Callee, "send:")) {
							for _, g := range vc.db.Ghosts {
								if g.Name == at.Ghost.Name {
									vc.comp(g.Name, g.Sort)
									set[g.Name] = true
								}
							}
						}
					}
				}
			case *ssa.UnOp:
				if ins.Op == token.ARROW {
					set[vc.chposComp()] = true
				}
			case *ssa.Select:
				set[vc.chposComp()] = true
			case *ssa.Next:
				if mi := mapIters[fr][ins.Iter]; mi != nil {
					set[vc.mapIterComp(mi.mt.Key())] = true
				} else if r, ok := ins.Iter.(*ssa.Range); ok {
					if mt, ok := r.X.Type().Underlying().(*types.Map); ok {
						set[vc.mapIterComp(mt.Key())] = true
					}
				}
			case *ssa.Range:
				set["$alloc"] = true
				if mt, ok := ins.X.Type().Underlying().(*types.Map); ok {
					set[vc.mapIterComp(mt.Key())] = true
				}
			case ssa.CallInstruction:
				cm, ok := fr.callModifies(ins)
				if fr.spec != nil {
					for _, at := range fr.spec.Ats {
						if at.Ghost != nil && !strings.HasPrefix(at.Callee, "send:") && !strings.HasPrefix(at.Callee, "mapupdate:") {
							for _, g := range vc.db.Ghosts {
								if g.Name == at.Ghost.Name {
									vc.comp(g.Name, g.Sort)
									set[g.Name] = true
								}
							}
						}
					}
				}
				if !ok {
					all = true
				}
				for _, c := range cm {
					set[c] = true
				}
			}
		}
	}
	if all {
		for c := range vc.comps {
			set[c] = true
		}
	}
	var out []string
	for c := range set {
		if _, ok := vc.comps[c]; ok {
			out = append(out, c)
		}
	}
	sort.Strings(out)
	return out
}

func (fr *Frame) compsOfAddr(addr ssa.Value) []string {
	vc := fr.vc
	switch a := addr.(type) {
	case *ssa.Global:
		return []string{vc.globalComp(a)}
	case *ssa.FieldAddr:
		return fr.compsOfAddr(a.X)
	case *ssa.IndexAddr:
		if _, ok := a.X.Type().Underlying().(*types.Slice); ok {
			return []string{vc.arrComp(a.X.Type().Underlying().(*types.Slice).Elem())}
		}
		return fr.compsOfAddr(a.X)
	case *ssa.FreeVar:
		if lv, ok := fr.freeL[a]; ok {
			return []string{lv.Comp}
		}
	case *ssa.Alloc:
		return []string{vc.allocComp2(a)}
	}
	if p, ok := addr.Type().Underlying().(*types.Pointer); ok {
		return []string{vc.memComp(p.Elem())}
	}
	return nil
}

func (fr *Frame) execBlock(b *ssa.BasicBlock, st *State) {
	vc := fr.vc
	fr.stNow = st
	for i, ins := range b.Instrs {
		fr.curIdx = i
		if _, ok := ins.(*ssa.Phi); ok {
			continue
		}
		switch ins := ins.(type) {
		case *ssa.If, *ssa.Jump:
			fr.reachOut[b] = fr.curReach
			fr.stOut[b] = st
			for _, s := range b.Succs {
				if isBackEdge(b, s) {
					fr.backEdge(b, s, st, and(fr.curReach, edgeCond(b, s, fr)))
				}
			}
			return
		case *ssa.Return:
			var res []Term
			for _, r := range ins.Results {
				res = append(res, fr.val(r))
			}
			fr.exits = append(fr.exits, &Exit{reach: fr.curReach, st: st, results: res, kind: "return", pos: ins.Pos()})
			fr.reachOut[b] = "false"
			return
		case *ssa.Panic:
			fr.panicExit(st, fr.curReach, fr.val(ins.X).S, ins.Pos(), true)
			fr.reachOut[b] = "false"
			return
		default:
			fr.exec(ins, st)
		}
	}
	_ = vc
}

// allocWrittenIn: may the cell allocated by a (or anything reached through its address) be written
// by an instruction inside the given block set?
func allocWrittenIn(v ssa.Value, body map[*ssa.BasicBlock]bool, seen map[ssa.Value]bool) bool {
	if seen[v] {
		return false
	}
	seen[v] = true
	refs := v.Referrers()
	if refs == nil {
		return true
	}
	for _, r := range *refs {
		switch r := r.(type) {
		case *ssa.Store:
			if r.Addr == v && body[r.Block()] {
				return true
			}
			if r.Val == v {
				return true // the address itself is stored somewhere: escapes
			}
		case *ssa.FieldAddr:
			if allocWrittenIn(r, body, seen) {
				return true
			}
		case *ssa.IndexAddr:
			if allocWrittenIn(r, body, seen) {
				return true
			}
		case *ssa.UnOp, *ssa.DebugRef:
		case *ssa.Slice:
			return true
		case *ssa.MakeClosure:
			// captured by a closure: written if the closure body stores through the free variable
			fn := r.Fn.(*ssa.Function)
			for i, bnd := range r.Bindings {
				if bnd == v && i < len(fn.FreeVars) {
					if freeVarWritten(fn.FreeVars[i]) {
						return true
					}
				}
			}
		default:
			if body[r.Block()] {
				return true
			}
			if _, isCall := r.(ssa.CallInstruction); isCall {
				return true
			}
		}
	}
	return false
}

func freeVarWritten(fv *ssa.FreeVar) bool {
	refs := fv.Referrers()
	if refs == nil {
		return false
	}
	for _, r := range *refs {
		switch r := r.(type) {
		case *ssa.Store:
			if r.Addr == fv || r.Val == fv {
				return true
			}
		case *ssa.UnOp, *ssa.DebugRef:
		default:
			return true
		}
	}
	return false
}
