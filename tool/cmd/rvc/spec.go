package main

import (
	"bufio"
	"fmt"
	"os"
	"path/filepath"
	"regexp"
	"sort"
	"strconv"
	"strings"
)

type Clause struct {
	Kind string // requires ensures ensures_panic invariant assert
	Tags []string
	Text string
	E    Expr
	File string
	Line int
	// known-finding support: Except is set by the known-findings loader
}

type LoopSpec struct {
	Assumes    []*Clause // trusted facts assumed on loop entry (counted as assumptions)
	IterAssumes []*Clause // trusted facts assumed at the head in every iteration (counted as assumptions)
	Invariants []*Clause
	Decreases  *Clause
	Modifies   []Expr
	Lets       []*LetSpec // loop N let NAME = expr : evaluated once at loop entry (before the havoc)
	IterLets   []*LetSpec // loop N iterlet NAME = expr : evaluated at the head of every iteration (after the havoc)
}

type AtSpec struct {
	Callee string // callee name suffix to match, e.g. "wrapped.Set" or "WriteSetCmd"
	Ord    int    // ordinal among matching call sites (source order), -1 = all
	Clause *Clause
	Ghost  *GhostAssign // `at send CH: ghost x = e`: ghost update performed right after the send
	Assume bool         // `at call F: assume e`: e is assumed (and listed as an assumption) before F's pre-conditions are checked
}

type FuncSpec struct {
	Key       string
	Pkg       string // short package path of the declaring file
	IsIface   bool
	Params    []string
	Results   []string
	Props     []string
	Arith     string
	Trusted   bool
	NoWrap    bool
	PanicsMay bool
	Standalone bool
	Requires  []*Clause
	Ensures   []*Clause
	EnsuresPanic []*Clause
	Modifies  []Expr
	Loops     map[int]*LoopSpec
	Ats       []*AtSpec
	Ghosts    []*AtSpec // ghost assignments at call sites (text "x = e")
	File      string
	Line      int
	Notes     []string
	AllocBound *Clause
	NeverClosed []*Clause // channels on which a receive returns only with a value (no close in the package)
	Lemmas    []*Clause
	Ensures2  []*Clause // relational (two-run) postconditions; names with suffix _2 denote the second run
	Elems     []*ElemSpec // per-element facts of a returned channel (instantiated at each receive)
	Lets      []*LetSpec  // let NAME = expr : abbreviations evaluated in the entry (pre-call) state
	Releases  []string    // parameters (pooled objects) whose ownership the function gives up
	UnreachableOK int     // number of return/loop-body covers that may legitimately be unreachable
	Assumes   []*Clause   // trusted post-conditions: assumed at call sites, not checked against the body
	AssumePre []*Clause   // modelling assumptions available inside the body only (not checked at call sites)
	Pure      *Clause     // pure E: the function returns E (a function of parameters and captured variables)
	EntryGhosts []*GhostAssign // ghost NAME = expr : ghost updates performed on entry of the body
	ReturnGhosts []*GhostAssign // ghost_return NAME = expr : ghost updates performed at every return (results bound)
	Implements []string // interface-method contract keys this function is checked to satisfy
	EffectsPrivate bool // callers in other packages see the call as effect-free (see callerView)
	PoolNew   int  // pool_new K: the function is a sync.Pool New function producing objects of kind K
}

type GhostAssign struct {
	Name string
	E    Expr
	Text string
}

type LetSpec struct {
	Name string
	E    Expr
	Text string
}

// ElemSpec: `elem <chanexpr> <var>: <body>` — for every index var in [0, chlen(chan)) body holds of
// chelem(chan, var). Assumed at each receive from that channel, for the element received.
type ElemSpec struct {
	Chan   Expr
	Var    string
	Clause *Clause
}

type GhostVar struct {
	Name string
	Sort string
	Pkg  string
}

type GlobalSpec struct {
	Pkg, Name, Kind string // kind: table | sentinel | stable
}

type SpecDB struct {
	Funcs   map[string]*FuncSpec
	Ghosts  []*GhostVar
	Globals map[string]*GlobalSpec // key pkg.name
	SMT     []string               // raw smt prelude lines, in order
	SMTInt  []string               // only in arith int
	SMTBV   []string               // only in arith bv
	Sigs    map[string]*SMTSig     // spec function signatures parsed from SMT
	Files   []string
	Assumptions []string // free-text "assume" notes declared in spec files
	SortAlias map[string]string
	LazySMT   [][2]string // (symbol, axiom): included only in scripts mentioning the symbol
	Private   map[string]string // ghost name -> package prefix: only contracts of those packages may mention it
}

type SMTSig struct {
	Name string
	Args []string
	Ret  string
}

func newSpecDB() *SpecDB {
	return &SpecDB{Funcs: map[string]*FuncSpec{}, Globals: map[string]*GlobalSpec{}, Sigs: map[string]*SMTSig{}}
}

var tagRe = regexp.MustCompile(`^([a-z_][a-z_0-9]*)(\[[A-Za-z0-9, ]+\])?(\s+|$)`)

func (db *SpecDB) loadFile(path string, defaultPkg string) error {
	f, err := os.Open(path)
	if err != nil {
		return err
	}
	defer f.Close()
	db.Files = append(db.Files, path)
	isGo := strings.HasSuffix(path, ".go")
	sc := bufio.NewScanner(f)
	sc.Buffer(make([]byte, 1<<20), 1<<20)
	pkg := defaultPkg
	var cur *FuncSpec
	lineNo := 0
	pending := ""
	pendingLine := 0
	for sc.Scan() {
		lineNo++
		line := sc.Text()
		t := strings.TrimSpace(line)
		if isGo {
			if !strings.HasPrefix(t, "//@") {
				continue
			}
			t = strings.TrimSpace(strings.TrimPrefix(t, "//@"))
		} else {
			if strings.HasPrefix(t, "//@") {
				t = strings.TrimSpace(strings.TrimPrefix(t, "//@"))
			}
			if strings.HasPrefix(t, "#") || strings.HasPrefix(t, "//") {
				continue
			}
		}
		if t == "" {
			continue
		}
		if strings.HasSuffix(t, "\\") {
			if pending == "" {
				pendingLine = lineNo
			}
			pending += strings.TrimSuffix(t, "\\") + " "
			continue
		}
		ln := lineNo
		if pending != "" {
			t = pending + t
			ln = pendingLine
			pending = ""
		}
		word, rest := splitWord(t)
		if isGo {
			for g, pre := range db.Private {
				if !hasAnyPrefix(pkg, pre) && mentionsIdent(t, g) {
					return fmt.Errorf("%s:%d: ghost state %s is private to contracts under %s (interface contracts do not list it, so no caller outside may rely on it)", path, ln, g, pre)
				}
			}
		}
		switch word {
		case "private":
			f := strings.Fields(rest)
			if len(f) != 2 {
				return fmt.Errorf("%s:%d: private NAME PKGPREFIX", path, ln)
			}
			if db.Private == nil {
				db.Private = map[string]string{}
			}
			db.Private[f[0]] = f[1]
			continue
		case "package":
			pkg = rest
			cur = nil
			continue
		case "func", "iface":
			fs := &FuncSpec{Pkg: pkg, Loops: map[int]*LoopSpec{}, File: path, Line: ln, IsIface: word == "iface"}
			fields := strings.Fields(rest)
			if len(fields) == 0 {
				return fmt.Errorf("%s:%d: missing name", path, ln)
			}
			name := fields[0]
			if isGo || pkg != "" && !isQualified(name) {
				fs.Key = pkg + "." + name
			} else {
				fs.Key = name
			}
			mode := ""
			for _, w := range fields[1:] {
				if w == "params" || w == "results" {
					mode = w
					continue
				}
				if mode == "params" {
					fs.Params = append(fs.Params, w)
				} else if mode == "results" {
					fs.Results = append(fs.Results, w)
				}
			}
			if old, dup := db.Funcs[fs.Key]; dup {
				return fmt.Errorf("%s:%d: duplicate contract for %s (also %s:%d)", path, ln, fs.Key, old.File, old.Line)
			}
			db.Funcs[fs.Key] = fs
			cur = fs
			continue
		case "ghost":
			if cur == nil || !strings.Contains(rest, "=") || looksLikeGhostDecl(rest) {
				fields := strings.SplitN(rest, " ", 2)
				if len(fields) != 2 {
					return fmt.Errorf("%s:%d: ghost NAME SORT", path, ln)
				}
				db.Ghosts = append(db.Ghosts, &GhostVar{Name: fields[0], Sort: strings.TrimSpace(fields[1]), Pkg: pkg})
				continue
			}
		case "smt":
			db.SMT = append(db.SMT, rest)
			db.parseSig(rest)
			continue
		case "sig":
			// signature of a function the engine prelude already declares: makes it callable from clauses
			db.parseSig(rest)
			continue
		case "smt_lazy":
			// smt_lazy SYMBOL (assert ...)
			w := strings.SplitN(rest, " ", 2)
			if len(w) == 2 {
				db.LazySMT = append(db.LazySMT, [2]string{w[0], strings.TrimSpace(w[1])})
			}
			continue
		case "smt_int":
			db.SMTInt = append(db.SMTInt, rest)
			db.parseSig(rest)
			continue
		case "smt_bv":
			db.SMTBV = append(db.SMTBV, rest)
			db.parseSig(rest)
			continue
		case "global":
			fields := strings.Fields(rest)
			if len(fields) == 3 && fields[1] == "guarded_by" {
				fields = []string{fields[0], "guarded_by:" + fields[2]}
			}
			if len(fields) != 2 {
				return fmt.Errorf("%s:%d: global NAME KIND", path, ln)
			}
			db.Globals[pkg+"."+fields[0]] = &GlobalSpec{Pkg: pkg, Name: fields[0], Kind: fields[1]}
			continue
		case "assumption":
			db.Assumptions = append(db.Assumptions, rest)
			continue
		}
		if cur == nil {
			return fmt.Errorf("%s:%d: clause outside func: %s", path, ln, t)
		}
		if err := cur.addClause(t, path, ln); err != nil {
			return fmt.Errorf("%s:%d: %v", path, ln, err)
		}
	}
	return sc.Err()
}

// hasAnyPrefix: pre is a comma-separated list of package-path prefixes.
func hasAnyPrefix(pkg, pre string) bool {
	for _, p := range strings.Split(pre, ",") {
		if strings.HasPrefix(pkg, strings.TrimSpace(p)) {
			return true
		}
	}
	return false
}

func mentionsIdent(line, name string) bool {
	for i := 0; ; {
		j := strings.Index(line[i:], name)
		if j < 0 {
			return false
		}
		j += i
		before := j == 0 || !isIdentByte(line[j-1])
		after := j+len(name) >= len(line) || !isIdentByte(line[j+len(name)])
		if before && after {
			return true
		}
		i = j + 1
	}
}

func isIdentByte(c byte) bool {
	return c == '_' || c == '$' || c >= '0' && c <= '9' || c >= 'a' && c <= 'z' || c >= 'A' && c <= 'Z'
}

func looksLikeGhostDecl(rest string) bool {
	// "name Sort" where Sort has no '=' at top level
	return !strings.Contains(rest, "=")
}

func isQualified(name string) bool {
	// e.g. io.ReadAtLeast, sync.(*Mutex).Lock — first segment before '.' is a package if name does not start with '('
	if strings.HasPrefix(name, "(") {
		return false
	}
	return strings.Contains(name, ".")
}

func splitWord(t string) (string, string) {
	i := strings.IndexAny(t, " \t[")
	if i < 0 {
		return t, ""
	}
	if t[i] == '[' {
		return t[:i], t[i:]
	}
	return t[:i], strings.TrimSpace(t[i:])
}

func (fs *FuncSpec) addClause(t, file string, ln int) error {
	m := tagRe.FindStringSubmatch(t)
	if m == nil {
		return fmt.Errorf("cannot parse clause %q", t)
	}
	kind := m[1]
	var tags []string
	if m[2] != "" {
		for _, x := range strings.Split(strings.Trim(m[2], "[]"), ",") {
			tags = append(tags, strings.TrimSpace(x))
		}
	}
	rest := strings.TrimSpace(t[len(m[0]):])
	mk := func(k string, text string) (*Clause, error) {
		e, err := parseSpecExpr(text)
		if err != nil {
			return nil, err
		}
		return &Clause{Kind: k, Tags: tags, Text: text, E: e, File: file, Line: ln}, nil
	}
	switch kind {
	case "props":
		fs.Props = strings.Fields(rest)
	case "arith":
		fs.Arith = rest
	case "trusted":
		fs.Trusted = true
	case "nowrap":
		fs.NoWrap = true
	case "standalone":
		fs.Standalone = true
	case "effects_private":
		fs.EffectsPrivate = true
	case "pool_new":
		n, err := strconv.Atoi(strings.TrimSpace(rest))
		if err != nil {
			return err
		}
		fs.PoolNew = n
		// what makes a pool's objects kind 1: they are FNV-1a hashers (checked against the body)
		if n == 1 {
			e2, _ := parseSpecExpr("result != nil && fnv1a(result)")
			fs.Ensures = append(fs.Ensures, &Clause{Kind: "ensures", Tags: tags, Text: "result != nil && fnv1a(result)", E: e2, File: file, Line: ln})
		}
	case "panics":
		fs.PanicsMay = rest == "may"
	case "note":
		fs.Notes = append(fs.Notes, rest)
	case "lemma":
		c, err := mk(kind, rest)
		if err != nil {
			return err
		}
		fs.Lemmas = append(fs.Lemmas, c)
	case "ensures2":
		c, err := mk(kind, rest)
		if err != nil {
			return err
		}
		fs.Ensures2 = append(fs.Ensures2, c)
	case "unreachable_ok":
		n, err := strconv.Atoi(strings.TrimSpace(rest))
		if err != nil {
			return err
		}
		fs.UnreachableOK = n
	case "releases":
		fs.Releases = append(fs.Releases, strings.Fields(rest)...)
	case "implements":
		fs.Implements = append(fs.Implements, strings.Fields(rest)...)
	case "ghost_return":
		i := strings.Index(rest, "=")
		if i < 0 {
			return fmt.Errorf("ghost_return NAME = expr")
		}
		e, err := parseSpecExpr(strings.TrimSpace(rest[i+1:]))
		if err != nil {
			return err
		}
		fs.ReturnGhosts = append(fs.ReturnGhosts, &GhostAssign{Name: strings.TrimSpace(rest[:i]), E: e, Text: rest})
	case "ghost":
		i := strings.Index(rest, "=")
		if i < 0 {
			return fmt.Errorf("ghost NAME = expr")
		}
		e, err := parseSpecExpr(strings.TrimSpace(rest[i+1:]))
		if err != nil {
			return err
		}
		fs.EntryGhosts = append(fs.EntryGhosts, &GhostAssign{Name: strings.TrimSpace(rest[:i]), E: e, Text: rest})
	case "let":
		i := strings.Index(rest, "=")
		if i < 0 {
			return fmt.Errorf("let NAME = expr")
		}
		e, err := parseSpecExpr(strings.TrimSpace(rest[i+1:]))
		if err != nil {
			return err
		}
		fs.Lets = append(fs.Lets, &LetSpec{Name: strings.TrimSpace(rest[:i]), E: e, Text: rest})
	case "elem":
		// elem result0 i: body
		i := strings.Index(rest, ":")
		if i < 0 {
			return fmt.Errorf("elem CHAN VAR: body")
		}
		w := strings.Fields(rest[:i])
		if len(w) != 2 {
			return fmt.Errorf("elem CHAN VAR: body")
		}
		ce, err := parseSpecExpr(w[0])
		if err != nil {
			return err
		}
		c, err := mk(kind, strings.TrimSpace(rest[i+1:]))
		if err != nil {
			return err
		}
		fs.Elems = append(fs.Elems, &ElemSpec{Chan: ce, Var: w[1], Clause: c})
	case "never_closed":
		c, err := mk(kind, rest)
		if err != nil {
			return err
		}
		fs.NeverClosed = append(fs.NeverClosed, c)
	case "allocbound":
		c, err := mk(kind, rest)
		if err != nil {
			return err
		}
		fs.AllocBound = c
	case "requires":
		c, err := mk(kind, rest)
		if err != nil {
			return err
		}
		fs.Requires = append(fs.Requires, c)
	case "ensures":
		c, err := mk(kind, rest)
		if err != nil {
			return err
		}
		fs.Ensures = append(fs.Ensures, c)
	case "pure":
		c, err := mk(kind, rest)
		if err != nil {
			return err
		}
		fs.Pure = c
		e2, _ := parseSpecExpr("result == (" + rest + ")")
		fs.Ensures = append(fs.Ensures, &Clause{Kind: "ensures", Tags: tags, Text: "result == (" + rest + ")", E: e2, File: file, Line: ln})
	case "assume_pre":
		c, err := mk(kind, rest)
		if err != nil {
			return err
		}
		fs.AssumePre = append(fs.AssumePre, c)
	case "assumes":
		c, err := mk(kind, rest)
		if err != nil {
			return err
		}
		fs.Assumes = append(fs.Assumes, c)
	case "ensures_panic":
		c, err := mk(kind, rest)
		if err != nil {
			return err
		}
		fs.EnsuresPanic = append(fs.EnsuresPanic, c)
	case "modifies":
		for _, part := range splitTop(rest, ',') {
			e, err := parseSpecExpr(part)
			if err != nil {
				return err
			}
			fs.Modifies = append(fs.Modifies, e)
		}
	case "loop":
		// loop N invariant e | loop N decreases e | loop N modifies a, b
		w := strings.SplitN(rest, " ", 3)
		if len(w) < 3 {
			return fmt.Errorf("loop N invariant|decreases|modifies ...")
		}
		n, err := strconv.Atoi(strings.TrimSuffix(w[0], ":"))
		if err != nil {
			return err
		}
		ls := fs.Loops[n]
		if ls == nil {
			ls = &LoopSpec{}
			fs.Loops[n] = ls
		}
		sub, body := splitWord(w[1] + " " + w[2])
		if strings.HasPrefix(body, "[") {
			// tags on the sub-clause: invariant[C01] e
			j := strings.Index(body, "]")
			for _, x := range strings.Split(body[1:j], ",") {
				tags = append(tags, strings.TrimSpace(x))
			}
			body = strings.TrimSpace(body[j+1:])
		}
		switch sub {
		case "invariant":
			c, err := mk("invariant", body)
			if err != nil {
				return err
			}
			// a conjunction is checked conjunct by conjunct (smaller, more stable queries)
			var parts []Expr
			var flat func(e Expr)
			flat = func(e Expr) {
				if b, ok := e.(*EBin); ok && b.Op == "&&" {
					flat(b.L)
					flat(b.R)
					return
				}
				parts = append(parts, e)
			}
			flat(c.E)
			if len(parts) == 1 {
				ls.Invariants = append(ls.Invariants, c)
			} else {
				for _, pe := range parts {
					ls.Invariants = append(ls.Invariants, &Clause{Kind: "invariant", Tags: c.Tags, Text: exprString(pe), E: pe, File: file, Line: ln})
				}
			}
		case "assume":
			c, err := mk("assume", body)
			if err != nil {
				return err
			}
			ls.Assumes = append(ls.Assumes, c)
		case "assume_iter":
			c, err := mk("assume", body)
			if err != nil {
				return err
			}
			ls.IterAssumes = append(ls.IterAssumes, c)
		case "let":
			i := strings.Index(body, "=")
			if i < 0 {
				return fmt.Errorf("loop N let NAME = expr")
			}
			e, err := parseSpecExpr(strings.TrimSpace(body[i+1:]))
			if err != nil {
				return err
			}
			ls.Lets = append(ls.Lets, &LetSpec{Name: strings.TrimSpace(body[:i]), E: e, Text: body})
		case "iterlet":
			i := strings.Index(body, "=")
			if i < 0 {
				return fmt.Errorf("loop N iterlet NAME = expr")
			}
			e, err := parseSpecExpr(strings.TrimSpace(body[i+1:]))
			if err != nil {
				return err
			}
			ls.IterLets = append(ls.IterLets, &LetSpec{Name: strings.TrimSpace(body[:i]), E: e, Text: body})
		case "decreases":
			c, err := mk("decreases", body)
			if err != nil {
				return err
			}
			ls.Decreases = c
		case "modifies":
			for _, part := range splitTop(body, ',') {
				e, err := parseSpecExpr(part)
				if err != nil {
					return err
				}
				ls.Modifies = append(ls.Modifies, e)
			}
		default:
			return fmt.Errorf("unknown loop clause %q", sub)
		}
	case "at":
		// at call <callee>#<k>: assert e   |  at call <callee>#<k>: ghost x = e
		r := strings.TrimPrefix(rest, "call ")
		isSend := strings.HasPrefix(rest, "send ")
		if isSend {
			r = strings.TrimSpace(strings.TrimPrefix(rest, "send "))
		}
		isMapUpd := strings.HasPrefix(rest, "mapupdate ")
		if isMapUpd {
			r = strings.TrimSpace(strings.TrimPrefix(rest, "mapupdate "))
		}
		i := strings.Index(r, ":")
		if i < 0 {
			return fmt.Errorf("at call NAME#K: assert e")
		}
		point := strings.TrimSpace(r[:i])
		if isSend {
			point = "send:" + point
		}
		if isMapUpd {
			point = "mapupdate:" + point
		}
		body := strings.TrimSpace(r[i+1:])
		ord := -1
		if j := strings.Index(point, "#"); j >= 0 {
			n, err := strconv.Atoi(point[j+1:])
			if err != nil {
				return err
			}
			ord = n
			point = point[:j]
		}
		sub, b := splitWord(body)
		if strings.HasPrefix(b, "[") {
			j := strings.Index(b, "]")
			for _, x := range strings.Split(b[1:j], ",") {
				tags = append(tags, strings.TrimSpace(x))
			}
			b = strings.TrimSpace(b[j+1:])
		}
		switch sub {
		case "assert":
			c, err := mk("assert", b)
			if err != nil {
				return err
			}
			fs.Ats = append(fs.Ats, &AtSpec{Callee: point, Ord: ord, Clause: c})
		case "assume":
			if isSend || isMapUpd {
				return fmt.Errorf("at ...: assume is supported at call sites only")
			}
			c, err := mk("assume", b)
			if err != nil {
				return err
			}
			fs.Ats = append(fs.Ats, &AtSpec{Callee: point, Ord: ord, Clause: c, Assume: true})
		case "ghost":
			// supported at send, map-update and call sites
			k := strings.Index(b, "=")
			if k < 0 {
				return fmt.Errorf("at send CH: ghost NAME = expr")
			}
			e, err := parseSpecExpr(strings.TrimSpace(b[k+1:]))
			if err != nil {
				return err
			}
			fs.Ats = append(fs.Ats, &AtSpec{Callee: point, Ord: ord, Ghost: &GhostAssign{Name: strings.TrimSpace(b[:k]), E: e, Text: b}})
		default:
			return fmt.Errorf("unknown at-clause %q", sub)
		}
	default:
		return fmt.Errorf("unknown clause kind %q", kind)
	}
	return nil
}

func splitTop(s string, sep byte) []string {
	var out []string
	depth := 0
	last := 0
	for i := 0; i < len(s); i++ {
		switch s[i] {
		case '(', '[':
			depth++
		case ')', ']':
			depth--
		default:
			if s[i] == sep && depth == 0 {
				out = append(out, strings.TrimSpace(s[last:i]))
				last = i + 1
			}
		}
	}
	if strings.TrimSpace(s[last:]) != "" {
		out = append(out, strings.TrimSpace(s[last:]))
	}
	return out
}

// ---- tiny s-expression reader for signatures ----

type sx struct {
	atom string
	list []*sx
}

func (s *sx) String() string {
	if s.list == nil {
		return s.atom
	}
	var parts []string
	for _, x := range s.list {
		parts = append(parts, x.String())
	}
	return "(" + strings.Join(parts, " ") + ")"
}

func readSx(s string) (*sx, string) {
	s = strings.TrimLeft(s, " \t\n")
	if s == "" {
		return nil, ""
	}
	if s[0] == '(' {
		s = s[1:]
		node := &sx{list: []*sx{}}
		for {
			s = strings.TrimLeft(s, " \t\n")
			if s == "" {
				return node, ""
			}
			if s[0] == ')' {
				return node, s[1:]
			}
			var c *sx
			c, s = readSx(s)
			if c == nil {
				return node, s
			}
			node.list = append(node.list, c)
		}
	}
	i := 0
	for i < len(s) && !strings.ContainsRune(" \t\n()", rune(s[i])) {
		i++
	}
	return &sx{atom: s[:i]}, s[i:]
}

func (db *SpecDB) parseSig(line string) {
	n, _ := readSx(line)
	if n == nil || len(n.list) < 3 {
		return
	}
	switch n.list[0].atom {
	case "declare-const":
		db.Sigs[n.list[1].atom] = &SMTSig{Name: n.list[1].atom, Ret: n.list[2].String()}
		return
	case "define-sort":
		if len(n.list) == 4 {
			if db.SortAlias == nil {
				db.SortAlias = map[string]string{}
			}
			db.SortAlias[n.list[1].atom] = n.list[3].String()
		}
		return
	case "declare-datatypes":
		if len(n.list[1].list) == len(n.list[2].list) {
			for i, d := range n.list[1].list {
				dt := d.list[0].atom
				for _, ctor := range n.list[2].list[i].list {
					if ctor.list == nil {
						db.Sigs[ctor.atom] = &SMTSig{Name: ctor.atom, Ret: dt}
						continue
					}
					sig := &SMTSig{Name: ctor.list[0].atom, Ret: dt}
					for _, acc := range ctor.list[1:] {
						sig.Args = append(sig.Args, acc.list[1].String())
						db.Sigs[acc.list[0].atom] = &SMTSig{Name: acc.list[0].atom, Args: []string{dt}, Ret: acc.list[1].String()}
					}
					db.Sigs[sig.Name] = sig
				}
			}
		}
		return
	}
	if len(n.list) < 4 {
		return
	}
	switch n.list[0].atom {
	case "declare-fun":
		sig := &SMTSig{Name: n.list[1].atom, Ret: n.list[3].String()}
		for _, a := range n.list[2].list {
			sig.Args = append(sig.Args, a.String())
		}
		db.Sigs[sig.Name] = sig
	case "define-fun", "define-fun-rec":
		sig := &SMTSig{Name: n.list[1].atom, Ret: n.list[3].String()}
		for _, a := range n.list[2].list {
			if len(a.list) == 2 {
				sig.Args = append(sig.Args, a.list[1].String())
			}
		}
		db.Sigs[sig.Name] = sig
	}
}

// expandSort resolves define-sort aliases.
func (db *SpecDB) expandSort(s string) string {
	if a, ok := db.SortAlias[s]; ok {
		return a
	}
	return s
}

// loadSpecs reads /verif/spec/*.rvc and every zz_contracts_verif.go under repoDir.
func loadSpecs(verifDir, repoDir string) (*SpecDB, error) {
	db := newSpecDB()
	rvcs, _ := filepath.Glob(filepath.Join(verifDir, "spec", "*.rvc"))
	sort.Strings(rvcs)
	for _, p := range rvcs {
		if err := db.loadFile(p, ""); err != nil {
			return nil, err
		}
	}
	var gos []string
	filepath.Walk(repoDir, func(p string, info os.FileInfo, err error) error {
		if err != nil {
			return nil
		}
		if info.IsDir() && (info.Name() == ".git" || info.Name() == "vendor") {
			return filepath.SkipDir
		}
		if !info.IsDir() && info.Name() == "zz_contracts_verif.go" {
			gos = append(gos, p)
		}
		return nil
	})
	sort.Strings(gos)
	for _, p := range gos {
		rel, _ := filepath.Rel(repoDir, filepath.Dir(p))
		if err := db.loadFile(p, filepath.ToSlash(rel)); err != nil {
			return nil, err
		}
	}
	return db, nil
}
